//! C10 — constant folding never changes what an expression computes.
//!
//! Differential check, no hand-written expected value: every expression of a small grammar is parsed
//! twice by the real parser — once with the fold pass (what `parse` normally returns) and once with
//! the `VERIF_SKIP_FOLD` hook — and both ASTs are evaluated by the real evaluator on every event of a
//! small alphabet. Same value (same variant, same payload) or same absence of a value is demanded;
//! a parse failure on one side only is a failure too. Expressions of depth ≤ 2 are also run end to
//! end (`.emit(r: expr)` on a fresh Engine, both programs).
//!
//! The skip-fold flag is process-global and every call of `parse` spawns a 16 MB-stack thread (whose
//! map/unmap traffic serialises the worker threads of one process), so all parsing happens in
//! single-threaded processes: the parent handles depth ≤ 2 itself and re-invokes its own executable
//! (`child <lo> <hi>`) for ranges of the depth-3 index space; a child parses a batch unfolded (flag
//! on), then folded (flag off), compares, and prints its collected result as one JSON document.

use crate::common::*;
use mc::{Args, Report};
use serde::{Deserialize, Serialize};
use std::collections::{BTreeMap, BTreeSet};
use rustc_hash::FxHashMap;
use serde_json::{json, Value as J};
use std::collections::HashMap;
use std::sync::atomic::Ordering as AO;
use std::sync::Arc;
use varpulis_core::ast::{Expr, Program};
use varpulis_core::Value;
use varpulis_parser::pest_parser::VERIF_SKIP_FOLD;
use varpulis_runtime::engine::evaluator::eval_expr_with_functions;
use varpulis_runtime::engine::UserFunction;
use varpulis_runtime::sequence::SequenceContext;
use varpulis_runtime::Event;

// ---- grammar ----------------------------------------------------------------------------------

struct Grammar {
    atoms: Vec<&'static str>, // atom 0 is the field reference `f`
    bin: Vec<(&'static str, &'static str)>,
    un: Vec<(&'static str, &'static str)>,
    events: Vec<(&'static str, Option<Value>)>,
}

fn grammar(thorough: bool) -> Grammar {
    let mut g = Grammar {
        atoms: vec!["f", "0", "1", "2", "-1", "0.0", "1.5", "9223372036854775807", "\"s\""],
        bin: vec![("mul", "*"), ("add", "+"), ("sub", "-"), ("div", "/"), ("mod", "%"), ("pow", "**")],
        un: vec![("neg", "-")],
        events: vec![
            ("int", Some(Value::Int(2))),
            ("float", Some(Value::Float(2.5))),
            ("negzero", Some(Value::Float(-0.0))),
            ("str", Some(Value::Str("s".into()))),
            ("null", Some(Value::Null)),
            ("missing", None),
        ],
    };
    if thorough {
        g.atoms.push("true");
        g.bin.extend([("eq", "=="), ("and", "and")]);
        g.un.push(("not", "not "));
        g.events.extend([("i64max", Some(Value::Int(i64::MAX))), ("nan", Some(Value::Float(f64::NAN))), ("bool", Some(Value::Bool(true))), ("array", Some(Value::array(vec![])))]);
    }
    g
}

#[derive(Clone, Debug, PartialEq)]
enum Node {
    Atom(usize),
    Un(usize, Box<Node>),
    Bin(usize, Box<Node>, Box<Node>),
}

impl Node {
    fn depth(&self) -> usize {
        match self {
            Node::Atom(_) => 1,
            Node::Un(_, x) => 1 + x.depth(),
            Node::Bin(_, l, r) => 1 + l.depth().max(r.depth()),
        }
    }
    fn size(&self) -> usize {
        match self {
            Node::Atom(_) => 1,
            Node::Un(_, x) => 1 + x.size(),
            Node::Bin(_, l, r) => 1 + l.size() + r.size(),
        }
    }
    fn has_field(&self) -> bool {
        match self {
            Node::Atom(i) => *i == 0,
            Node::Un(_, x) => x.has_field(),
            Node::Bin(_, l, r) => l.has_field() || r.has_field(),
        }
    }
    /// smallest expression first; among equals one that reads the field first (the property speaks
    /// about `price * 0`), then the event order
    fn rank(&self, ei: usize) -> usize {
        self.size() * 1000 + if self.has_field() { 0 } else { 500 } + ei
    }
    fn atoms_within(&self, set: &[usize]) -> bool {
        match self {
            Node::Atom(i) => set.contains(i),
            Node::Un(_, x) => x.atoms_within(set),
            Node::Bin(_, l, r) => l.atoms_within(set) && r.atoms_within(set),
        }
    }
    fn text(&self, g: &Grammar) -> String {
        let operand = |n: &Node| {
            let t = n.text(g);
            if matches!(n, Node::Atom(_)) && !t.starts_with('-') {
                t
            } else {
                format!("({t})")
            }
        };
        match self {
            Node::Atom(i) => g.atoms[*i].to_string(),
            Node::Un(u, x) => format!("{}{}", g.un[*u].1, operand(x)),
            Node::Bin(o, l, r) => format!("{} {} {}", operand(l), g.bin[*o].1, operand(r)),
        }
    }
    fn op_name(&self, g: &Grammar) -> &'static str {
        match self {
            Node::Atom(_) => "atom",
            Node::Un(u, _) => g.un[*u].0,
            Node::Bin(o, _, _) => g.bin[*o].0,
        }
    }
    fn children(&self) -> Vec<&Node> {
        match self {
            Node::Atom(_) => vec![],
            Node::Un(_, x) => vec![x],
            Node::Bin(_, l, r) => vec![l, r],
        }
    }
    fn to_json(&self, g: &Grammar) -> J {
        match self {
            Node::Atom(i) => json!(["atom", g.atoms[*i]]),
            Node::Un(u, x) => json!([g.un[*u].0, x.to_json(g)]),
            Node::Bin(o, l, r) => json!([g.bin[*o].0, l.to_json(g), r.to_json(g)]),
        }
    }
    fn from_json(j: &J, g: &Grammar) -> Node {
        let bad = || -> ! { mc::machinery_error(&format!("replay: bad expression tree {j}")) };
        let a = j.as_array().unwrap_or_else(|| bad());
        let head = a.first().and_then(|h| h.as_str()).unwrap_or_else(|| bad());
        match (head, a.len()) {
            ("atom", 2) => Node::Atom(g.atoms.iter().position(|t| Some(*t) == a[1].as_str()).unwrap_or_else(|| bad())),
            (h, 2) => Node::Un(g.un.iter().position(|u| u.0 == h).unwrap_or_else(|| bad()), Box::new(Node::from_json(&a[1], g))),
            (h, 3) => Node::Bin(g.bin.iter().position(|o| o.0 == h).unwrap_or_else(|| bad()), Box::new(Node::from_json(&a[1], g)), Box::new(Node::from_json(&a[2], g))),
            _ => bad(),
        }
    }
}

/// Enumeration of the nodes of depth exactly d = depth(lower)+1 over the list `lower` of all nodes of
/// smaller depth: unary ops over the nodes of depth d−1, binary ops over all pairs with at least one
/// operand of depth d−1. Index → node (None = pair already enumerated at a smaller depth).
struct Stage<'a> {
    g: &'a Grammar,
    lower: &'a [Node],
    d: usize,
}
impl Stage<'_> {
    fn total(&self) -> u64 {
        let n = self.lower.len() as u64;
        n * self.g.un.len() as u64 + n * n * self.g.bin.len() as u64
    }
    fn node(&self, i: u64) -> Option<Node> {
        let n = self.lower.len() as u64;
        let nu = n * self.g.un.len() as u64;
        if i < nu {
            let (x, u) = (&self.lower[(i / self.g.un.len() as u64) as usize], (i % self.g.un.len() as u64) as usize);
            return (x.depth() == self.d - 1).then(|| Node::Un(u, Box::new(x.clone())));
        }
        let i = i - nu;
        let nb = self.g.bin.len() as u64;
        let (pair, o) = (i / nb, (i % nb) as usize);
        let (l, r) = (&self.lower[(pair / n) as usize], &self.lower[(pair % n) as usize]);
        (l.depth().max(r.depth()) == self.d - 1).then(|| Node::Bin(o, Box::new(l.clone()), Box::new(r.clone())))
    }
}

// ---- result collector (serialisable, so that child processes can hand theirs to the parent) -----

#[derive(Serialize, Deserialize, Clone)]
struct BestCase {
    count: u64,
    desc: String,
    case: J,
    size: usize,
}

#[derive(Serialize, Deserialize, Default)]
struct VMap(BTreeMap<String, BestCase>);

impl VMap {
    fn add(&mut self, sig: String, desc: String, case: J, size: usize) {
        match self.0.get_mut(&sig) {
            Some(b) => {
                b.count += 1;
                if size < b.size {
                    (b.desc, b.case, b.size) = (desc, case, size);
                }
            }
            None => {
                self.0.insert(sig, BestCase { count: 1, desc, case, size });
            }
        }
    }
}

#[derive(Serialize, Deserialize, Default)]
struct Coll {
    evaluations: u64,
    nontrivial: u64,
    expressions: u64,
    counts: BTreeMap<String, u64>,
    outcomes: BTreeSet<u64>,
    viol: VMap,
}

impl Coll {
    fn count(&mut self, k: &str, n: u64) {
        *self.counts.entry(k.to_string()).or_insert(0) += n;
    }
    fn outcome<T: std::hash::Hash>(&mut self, t: &T) {
        if self.outcomes.len() < 20_000 {
            self.outcomes.insert(mc::hash_of(t));
        }
    }
    fn merge(&mut self, o: Coll) {
        self.evaluations += o.evaluations;
        self.nontrivial += o.nontrivial;
        self.expressions += o.expressions;
        for (k, v) in o.counts {
            *self.counts.entry(k).or_insert(0) += v;
        }
        self.outcomes.extend(o.outcomes);
        for (sig, b) in o.viol.0 {
            match self.viol.0.get_mut(&sig) {
                Some(cur) => {
                    cur.count += b.count;
                    if b.size < cur.size {
                        (cur.desc, cur.case, cur.size) = (b.desc, b.case, b.size);
                    }
                }
                None => {
                    self.viol.0.insert(sig, b);
                }
            }
        }
    }
    /// hand everything to the report (a signature's count is replayed with placeholder entries that
    /// can never displace the smallest case)
    fn into_report(self, rep: &mut Report) {
        let mut acc = mc::Acc { evaluations: self.evaluations, nontrivial: self.nontrivial, ..Default::default() };
        acc.counts = self.counts;
        acc.outcomes = self.outcomes.into_iter().collect();
        rep.absorb(acc);
        for (sig, b) in self.viol.0 {
            rep.violation(mc::Violation { sig: sig.clone(), desc: b.desc, case: b.case, size: b.size });
            for _ in 1..b.count {
                rep.violation(mc::Violation { sig: sig.clone(), desc: String::new(), case: J::Null, size: usize::MAX });
            }
        }
    }
}

// ---- parsing both ways --------------------------------------------------------------------------

/// One expression parsed in one mode: the expression of the emit field (and the whole program when
/// it was parsed alone, for the end-to-end run), or the parser's error.
type Parsed = Result<(Expr, Option<Arc<Program>>), String>;

fn emit_source(texts: &[String]) -> String {
    let fields: Vec<String> = texts.iter().enumerate().map(|(k, t)| format!("r{k}: {t}")).collect();
    format!("stream S = E\n    .emit({})\n", fields.join(", "))
}

fn streams_source(texts: &[String]) -> String {
    texts.iter().enumerate().map(|(k, t)| format!("stream S{k} = E\n    .emit(r0: {t})\n")).collect::<Vec<_>>().join("\n")
}

/// Parse a batch of expressions in one call of the real parser (a call costs ~10 ms here because
/// `parse` spawns a 16 MB-stack thread): either as the fields of one `.emit(...)` (`streams ==
/// false`) or as one stream per expression, split afterwards into one single-stream Program per
/// expression for the end-to-end run. A rejected batch is bisected so that an error is attributed
/// to its expression.
fn parse_batch(texts: &[String], streams: bool, acc: &mut Coll) -> Vec<Parsed> {
    acc.count("parser_calls", 1);
    let src = if streams { streams_source(texts) } else { emit_source(texts) };
    match varpulis_parser::parse(&src) {
        Ok(p) => {
            let out: Vec<Parsed> = if streams {
                p.statements
                    .iter()
                    .map(|st| {
                        let single = Program { statements: vec![st.clone()] };
                        let e = emit_exprs(&single).into_iter().next().map(|(_, e)| e);
                        e.map(|e| (e, Some(Arc::new(single)))).ok_or_else(|| "no emit expression".to_string())
                    })
                    .collect()
            } else {
                emit_exprs(&p).into_iter().map(|(_, e)| Ok((e, None))).collect()
            };
            if out.len() != texts.len() || out.iter().any(|r| r.is_err()) {
                mc::machinery_error(&format!("batch of {} expressions came back as {} from the parser", texts.len(), out.len()));
            }
            out
        }
        Err(e) if texts.len() == 1 => vec![Err(first_line(&e.to_string()))],
        Err(_) => {
            let (a, b) = texts.split_at(texts.len() / 2);
            let mut v = parse_batch(a, streams, acc);
            v.extend(parse_batch(b, streams, acc));
            v
        }
    }
}

#[derive(Clone)]
struct Entry {
    unf: Parsed,
    fol: Parsed,
}

trait Lookup {
    fn get(&self, n: &Node) -> Entry;
}
struct Table<'a> {
    g: &'a Grammar,
    map: HashMap<String, Entry>,
}
impl Lookup for Table<'_> {
    fn get(&self, n: &Node) -> Entry {
        self.map.get(&n.text(self.g)).cloned().unwrap_or_else(|| mc::machinery_error(&format!("sub-expression {} not in the table", n.text(self.g))))
    }
}
/// Replay mode: single-threaded, so the flag can be flipped per parse.
struct Direct<'a> {
    g: &'a Grammar,
}
impl Lookup for Direct<'_> {
    fn get(&self, n: &Node) -> Entry {
        let t = [n.text(self.g)];
        let mut acc = Coll::default();
        VERIF_SKIP_FOLD.store(true, AO::SeqCst);
        let unf = parse_batch(&t, true, &mut acc).remove(0);
        VERIF_SKIP_FOLD.store(false, AO::SeqCst);
        let fol = parse_batch(&t, true, &mut acc).remove(0);
        Entry { unf, fol }
    }
}

// ---- evaluation and comparison --------------------------------------------------------------------

#[derive(Clone, Debug)]
enum Outcome {
    Val(Option<Value>),
    Panic(String),
}

fn eval(expr: &Expr, ev: &Event) -> Outcome {
    thread_local! {
        static F: FxHashMap<String, UserFunction> = FxHashMap::default();
        static B: FxHashMap<String, Value> = FxHashMap::default();
    }
    let r = F.with(|f| B.with(|b| mc::catch(|| eval_expr_with_functions(expr, ev, SequenceContext::empty(), f, b))));
    match r {
        Ok(v) => Outcome::Val(v),
        Err(_) => Outcome::Panic(mc::last_panic_location()),
    }
}

fn show_outcome(o: &Outcome) -> String {
    match o {
        Outcome::Val(v) => show_opt(v),
        Outcome::Panic(loc) => format!("panic at {loc}"),
    }
}

fn mk_event(v: &Option<Value>) -> Event {
    event("E", 0, &[("f", v.clone())])
}

/// Verdict of one (expression, event): Some(true) same, Some(false) differs, None don't-care
/// (the unfolded evaluation panics — panics are C11's subject, there is no reference value).
fn verdict(u: &Outcome, f: &Outcome) -> Option<bool> {
    match (u, f) {
        (Outcome::Panic(_), _) => None,
        (Outcome::Val(_), Outcome::Panic(_)) => Some(false),
        (Outcome::Val(a), Outcome::Val(b)) => Some(identical_opt(a, b)),
    }
}

fn mismatch(e: &Entry, ev: &Event) -> bool {
    match (&e.unf, &e.fol) {
        (Ok((u, _)), Ok((f, _))) => verdict(&eval(u, ev), &eval(f, ev)) == Some(false),
        (Ok(_), Err(_)) | (Err(_), Ok(_)) => true,
        (Err(_), Err(_)) => false,
    }
}

/// Class of an operand of operator `op` on an event, from the operand's unfolded evaluation. The
/// distinguished integers are only named where the operator treats them specially (identity
/// rewrites for 0 and 1, overflow for i64::MIN), so that one rewrite rule gives one scope.
fn operand_class(op: &str, e: &Entry, ev: &Event, folded: bool) -> &'static str {
    // a crash inside the fold pass happens on the already folded operands, so those are classified
    let o = match if folded { &e.fol } else { &e.unf } {
        Ok((u, _)) => eval(u, ev),
        Err(_) => return "rejected",
    };
    match o {
        Outcome::Val(Some(Value::Int(0))) if matches!(op, "mul" | "add" | "sub") => "0",
        Outcome::Val(Some(Value::Int(1))) if matches!(op, "mul" | "div") => "1",
        Outcome::Val(Some(Value::Int(i64::MIN))) if matches!(op, "neg" | "div" | "mod") => "i64_min",
        Outcome::Val(Some(Value::Int(_))) => "int",
        Outcome::Val(Some(Value::Float(_))) => "float",
        Outcome::Val(_) => "non_numeric", // string, null, bool, array, or no value at all
        Outcome::Panic(_) => "panicking",
    }
}

/// Smallest sub-expression that already shows the difference on this event, and its signature
/// (operator + classes of its operands) — attributes of the case only.
fn culprit<'n>(n: &'n Node, ev: &Event, look: &dyn Lookup, g: &Grammar, folded: bool) -> (&'n Node, String) {
    for c in n.children() {
        if mismatch(&look.get(c), ev) {
            return culprit(c, ev, look, g, folded);
        }
    }
    let op = n.op_name(g);
    let mut classes: Vec<&str> = n.children().iter().map(|c| operand_class(op, &look.get(c), ev, folded)).collect();
    if matches!(op, "mul" | "add" | "and" | "or" | "eq") {
        classes.sort(); // commutative: one scope for both orientations
    }
    (n, format!("{}:{}", op, classes.join(",")))
}

struct Ctx<'a> {
    g: &'a Grammar,
    events: Vec<Event>,
    rt: tokio::runtime::Runtime,
}

fn case_json(n: &Node, g: &Grammar, ei: usize) -> J {
    json!({"expr": n.text(g), "tree": n.to_json(g), "event": g.events[ei].0, "f": enc_opt(&g.events[ei].1)})
}

/// All checks of one expression (both parses given). `look` resolves sub-expressions.
fn check_expr(cx: &Ctx, n: &Node, e: &Entry, look: &dyn Lookup, acc: &mut Coll) {
    let g = cx.g;
    match (&e.unf, &e.fol) {
        (Err(_), Err(_)) => {
            acc.evaluations += 1;
            acc.count("rejected_by_both_parses", 1);
        }
        (Ok(_), Err(msg)) | (Err(msg), Ok(_)) => {
            acc.evaluations += 1;
            acc.nontrivial += 1;
            let folded_fails = e.fol.is_err();
            let (c, sig) = culprit(n, &cx.events[0], look, g, true);
            let kind = if folded_fails { "fold_crash" } else { "unfolded_rejected" };
            acc.viol.add(
                format!("C10:{kind}:{sig}"),
                format!(
                    "`{}`: parse {} the fold pass fails ({msg}) while parse {} it succeeds (smallest such sub-expression: `{}`)",
                    n.text(g),
                    if folded_fails { "with" } else { "without" },
                    if folded_fails { "without" } else { "with" },
                    c.text(g)
                ),
                case_json(n, g, 0),
                n.rank(0),
            );
        }
        (Ok((u, up)), Ok((f, fp))) => {
            let changed = u != f;
            for (ei, ev) in cx.events.iter().enumerate() {
                acc.evaluations += 1;
                if changed {
                    acc.nontrivial += 1;
                }
                let (ou, of) = (eval(u, ev), eval(f, ev));
                acc.outcome(&show_outcome(&ou));
                match verdict(&ou, &of) {
                    None => acc.count("dont_care_unfolded_evaluation_panics", 1),
                    Some(true) => {}
                    Some(false) => {
                        let (c, sig) = culprit(n, ev, look, g, false);
                        acc.viol.add(
                            format!("C10:value:{sig}"),
                            format!(
                                "`{}` with f = {}: unfolded gives {}, folded gives {} (smallest sub-expression showing it: `{}`)",
                                n.text(g),
                                show_opt(&g.events[ei].1),
                                show_outcome(&ou),
                                show_outcome(&of),
                                c.text(g)
                            ),
                            case_json(n, g, ei),
                            n.rank(ei),
                        );
                    }
                }
                // end to end: both programs on fresh engines (when the batch was parsed as one stream per expression)
                if let (Some(up), Some(fp)) = (up, fp) {
                    acc.count("end_to_end_runs", 1);
                    let run = |p: &Program| match mc::catch(|| run_engine(&cx.rt, p, vec![ev.clone()])) {
                        Ok(Ok(outs)) => Outcome::Val(outs.first().and_then(|o| field(o, "r0").cloned())),
                        Ok(Err(e)) => Outcome::Panic(format!("engine error {}", first_line(&e))),
                        Err(_) => Outcome::Panic(mc::last_panic_location()),
                    };
                    let (eu, ef) = (run(up), run(fp));
                    // a difference the direct evaluation already showed is not reported twice
                    if verdict(&eu, &ef) == Some(false) && verdict(&ou, &of) != Some(false) {
                        acc.viol.add(
                            format!("C10:end_to_end:{}", culprit(n, ev, look, g, false).1),
                            format!("end to end `.emit(r0: {})` with f = {}: unfolded program emits r0 = {}, folded program emits r0 = {}", n.text(g), show_opt(&g.events[ei].1), show_outcome(&eu), show_outcome(&ef)),
                            case_json(n, g, ei),
                            n.rank(ei) + 50,
                        );
                    }
                }
            }
        }
    }
}

fn self_test(g: &Grammar) {
    // text rendering and enumeration are harness code
    let f = Node::Atom(0);
    let m1 = Node::Atom(4);
    let n = Node::Bin(0, Box::new(f.clone()), Box::new(m1.clone()));
    assert_eq!(n.text(g), "f * (-1)");
    assert_eq!(Node::Un(0, Box::new(n.clone())).text(g), "-(f * (-1))");
    assert_eq!(Node::Un(0, Box::new(m1)).text(g), "-(-1)");
    assert_eq!(Node::from_json(&n.to_json(g), g), n);
    let atoms: Vec<Node> = (0..g.atoms.len()).map(Node::Atom).collect();
    let st = Stage { g, lower: &atoms, d: 2 };
    let got = (0..st.total()).filter_map(|i| st.node(i)).count();
    assert_eq!(got, g.atoms.len() * g.un.len() + g.atoms.len() * g.atoms.len() * g.bin.len());
    assert!(identical_opt(&Some(Value::Float(f64::NAN)), &Some(Value::Float(f64::NAN))));
    assert!(!identical_opt(&Some(Value::Float(0.0)), &Some(Value::Float(-0.0))));
    assert!(!identical_opt(&Some(Value::Int(0)), &Some(Value::Float(0.0))));
    assert!(!identical_opt(&None, &Some(Value::Null)));
    assert_eq!(verdict(&Outcome::Panic(String::new()), &Outcome::Val(None)), None);
}

/// Unfolded and folded parse of a batch (this process is single-threaded while it parses, so the
/// process-global flag can be flipped around each call).
fn parse_both(texts: &[String], streams: bool, coll: &mut Coll) -> Vec<Entry> {
    VERIF_SKIP_FOLD.store(true, AO::SeqCst);
    let unf = parse_batch(texts, streams, coll);
    VERIF_SKIP_FOLD.store(false, AO::SeqCst);
    let fol = parse_batch(texts, streams, coll);
    unf.into_iter().zip(fol).map(|(unf, fol)| Entry { unf, fol }).collect()
}

const REDUCED_ATOMS: [&str; 5] = ["f", "0", "1", "-1", "9223372036854775807"];

/// Depth 1 and 2: every expression parsed both ways (one stream per expression, so that the
/// single-stream programs exist for the end-to-end run), checked when `check`, and entered into the
/// table that resolves sub-expressions of deeper expressions. Returns all nodes of depth ≤ 2.
fn build_lower<'g>(g: &'g Grammar, check: bool, coll: &mut Coll) -> (Vec<Node>, Table<'g>) {
    let mut table = Table { g, map: HashMap::new() };
    let mut lower: Vec<Node> = Vec::new();
    let cx = Ctx { g, events: g.events.iter().map(|(_, v)| mk_event(v)).collect(), rt: runtime() };
    for d in 1..=2usize {
        let nodes: Vec<Node> = if d == 1 {
            (0..g.atoms.len()).map(Node::Atom).collect()
        } else {
            let st = Stage { g, lower: &lower, d };
            (0..st.total()).filter_map(|i| st.node(i)).collect()
        };
        for batch in nodes.chunks(128) {
            let texts: Vec<String> = batch.iter().map(|n| n.text(g)).collect();
            let entries = parse_both(&texts, true, coll);
            if check {
                for (n, e) in batch.iter().zip(&entries) {
                    check_expr(&cx, n, e, &table, coll);
                }
                coll.expressions += batch.len() as u64;
                coll.count(&format!("expressions_depth_{d}"), batch.len() as u64);
            }
            for (t, e) in texts.into_iter().zip(entries) {
                table.map.insert(t, e);
            }
        }
        lower.extend(nodes);
    }
    (lower, table)
}

/// Depth 3, index range [lo, hi) of the stage enumeration (quick tier: reduced atom set only).
fn run_range(g: &Grammar, thorough: bool, lower: &[Node], table: &Table, lo: u64, hi: u64, budget: std::time::Duration, coll: &mut Coll) {
    let t0 = std::time::Instant::now();
    let reduced: Vec<usize> = (0..g.atoms.len()).filter(|i| REDUCED_ATOMS.contains(&g.atoms[*i])).collect();
    let st = Stage { g, lower, d: 3 };
    let cx = Ctx { g, events: g.events.iter().map(|(_, v)| mk_event(v)).collect(), rt: runtime() };
    let mut batch: Vec<Node> = Vec::with_capacity(256);
    let flush = |batch: &mut Vec<Node>, coll: &mut Coll| {
        if batch.is_empty() {
            return;
        }
        let texts: Vec<String> = batch.iter().map(|n| n.text(g)).collect();
        // parse cost per expression is lowest around 256 expressions per call
        let entries = parse_both(&texts, false, coll);
        for (n, e) in batch.iter().zip(&entries) {
            check_expr(&cx, n, e, table, coll);
        }
        coll.expressions += batch.len() as u64;
        coll.count("expressions_depth_3", batch.len() as u64);
        batch.clear();
    };
    for i in lo..hi.min(st.total()) {
        if let Some(n) = st.node(i).filter(|n| thorough || n.atoms_within(&reduced)) {
            batch.push(n);
            if batch.len() == 256 {
                flush(&mut batch, coll);
                if t0.elapsed() > budget {
                    coll.count("children_stopped_at_wall_cap", 1);
                    return;
                }
            }
        }
    }
    flush(&mut batch, coll);
}

fn run_child_process(args: &Args, lo: u64, hi: u64, budget_s: u64) -> Coll {
    let exe = std::env::current_exe().unwrap_or_else(|e| mc::machinery_error(&format!("current_exe: {e}")));
    let out = std::process::Command::new(exe)
        .args(["C10", "--tier", args.tier.name(), "child", &lo.to_string(), &hi.to_string(), &budget_s.to_string()])
        .stdin(std::process::Stdio::null())
        .stderr(std::process::Stdio::inherit())
        .output()
        .unwrap_or_else(|e| mc::machinery_error(&format!("cannot spawn C10 child: {e}")));
    if !out.status.success() {
        mc::machinery_error(&format!("C10 child for [{lo}, {hi}) ended with {:?}", out.status));
    }
    serde_json::from_slice(&out.stdout).unwrap_or_else(|e| mc::machinery_error(&format!("C10 child output: {e}")))
}

pub fn run(args: &Args) -> ! {
    let thorough = args.tier == mc::Tier::Thorough;
    let g = grammar(thorough);

    // ---- child mode: one range of depth 3, result as JSON on stdout
    if args.extra.first().map(String::as_str) == Some("child") {
        mc::quiet_panics();
        let num = |i: usize| args.extra.get(i).and_then(|s| s.parse::<u64>().ok()).unwrap_or_else(|| mc::machinery_error("C10 child: bad range"));
        let mut scratch = Coll::default();
        let (lower, table) = build_lower(&g, false, &mut scratch);
        let mut coll = Coll::default();
        run_range(&g, thorough, &lower, &table, num(1), num(2), std::time::Duration::from_secs(num(3)), &mut coll);
        println!("{}", serde_json::to_string(&coll).unwrap());
        std::process::exit(0);
    }

    self_test(&g);
    mc::quiet_panics();
    let mut rep = Report::new(args, "exploration");

    if let Some(path) = &args.replay {
        let case = mc::load_replay(path);
        let mut g1 = grammar(true); // superset grammar, so replays of either tier decode
        let n = Node::from_json(&case["tree"], &g1);
        // only the recorded event
        let want = case["event"].as_str().unwrap_or("");
        let ei = g1.events.iter().position(|(name, _)| *name == want).unwrap_or_else(|| mc::machinery_error("replay: unknown event"));
        g1.events = vec![g1.events[ei].clone()];
        let e = Direct { g: &g1 }.get(&n);
        let c1 = Ctx { g: &g1, events: g1.events.iter().map(|(_, v)| mk_event(v)).collect(), rt: runtime() };
        let mut coll = Coll::default();
        check_expr(&c1, &n, &e, &Direct { g: &g1 }, &mut coll);
        coll.into_report(&mut rep);
        rep.evaluations = rep.evaluations.max(1);
        rep.finish();
    }

    let cap = wall_cap(args.tier, 30, 1080);
    let t_end = std::time::Instant::now() + cap;
    let deadline = mc::Deadline::after(cap);
    // depth ≤ 2 in this process (single-threaded), with the end-to-end runs
    let mut coll = Coll::default();
    let (lower, _table) = build_lower(&g, true, &mut coll);
    // depth 3 in child processes, one index range each
    let total = Stage { g: &g, lower: &lower, d: 3 }.total();
    let pieces = (args.threads as u64 * args.tier.pick(6, 12)).max(1);
    let step = total.div_ceil(pieces);
    let ranges: Vec<(u64, u64)> = (0..pieces).map(|k| (k * step, ((k + 1) * step).min(total))).filter(|(a, b)| a < b).collect();
    let merged = std::sync::Mutex::new(coll);
    let (_, done) = mc::par_items(&ranges, args.threads, |(lo, hi), _| {
        if deadline.expired() {
            return false;
        }
        let left = t_end.saturating_duration_since(std::time::Instant::now()).as_secs().max(1);
        let c = run_child_process(args, *lo, *hi, left);
        merged.lock().unwrap().merge(c);
        true
    });
    let coll = merged.into_inner().unwrap();
    if !done || coll.counts.contains_key("children_stopped_at_wall_cap") {
        rep.cap_hit("wall cap during depth 3 (depths 1 and 2 completed)");
    }
    rep.set("expressions", json!(coll.expressions));
    rep.set("child_processes", json!(ranges.len()));
    coll.into_report(&mut rep);
    rep.set("events", json!(g.events.iter().map(|(n, v)| format!("{n}: f = {}", show_opt(v))).collect::<Vec<_>>()));
    rep.sample(json!({"expr":"f * 0","event":"f = Float(2.5)","unfolded":"Float(0.0)","compared_with":"value of the folded AST"}));
    rep.sample(json!({"expr":"(9223372036854775807 + 1) / (-1)","event":"any","compared":"parse with the fold pass vs. without"}));
    rep.rule = format!(
        "Exhaustive: every expression of depth ≤ 2 (atom = depth 1) over atoms {{{}}}, binary operators {{{}}}, unary {{{}}}, and every expression of depth 3 over {} × every event f ∈ {{{}}}; each expression parsed by the real parser with and without the fold pass (VERIF_SKIP_FOLD), both ASTs evaluated by eval_expr_with_functions; depth ≤ 2 additionally end to end through Engine `.emit(r0: expr)`. Oracle: differential (same variant and payload, or both no value; one-sided parse failure fails). Non-trivial = the fold pass changed the AST of the expression.",
        g.atoms.join(", "),
        g.bin.iter().map(|o| o.1).collect::<Vec<_>>().join(" "),
        g.un.iter().map(|o| o.1.trim()).collect::<Vec<_>>().join(" "),
        if thorough { "the same atoms".to_string() } else { format!("the atoms {{{}}}", REDUCED_ATOMS.join(", ")) },
        g.events.iter().map(|(n, _)| *n).collect::<Vec<_>>().join(", ")
    );
    rep.assume("a case whose UNFOLDED evaluation panics (e.g. `9223372036854775807 + 1` with overflow checks on) has no reference value and is a don't-care here; evaluation panics are C11's subject (counted in dont_care_unfolded_evaluation_panics)");
    rep.assume("floats are compared by bit pattern (0.0 ≠ −0.0, any NaN = any NaN): the property demands the same value, and −0.0 is observable (1/x, printing)");
    rep.assume("signature = operator of the smallest sub-expression that shows the difference + classes of its operand values on the event (0 / 1 / i64_min only where the operator treats them specially, else int / float / non_numeric incl. no value / panicking); for a crash inside the fold pass the operands are classified after folding");
    rep.finish()
}
