//! C11 — evaluating any expression on any event never panics.
//!
//! Space: every operator and every built-in applied to fields whose values range over a boundary
//! alphabet B (stage 1), and every composition "outer form over one inner form" (stage 2). Each
//! expression is VPL source inside `.emit(r: EXPR)` (and `.where(EXPR)` at stage 1), parsed by the
//! real parser, loaded into a real Engine and driven with one event per field valuation.
//! Oracle: the evaluation returns (a value or no value): no unwind, no abort, no hang.
//!
//! Some inputs overflow the stack and abort the process, so the parent never evaluates anything
//! itself: it re-invokes its own executable for shards of the expression list (`child` protocol
//! below); a child that dies abnormally is itself a failing case — the expression in flight is
//! confirmed in isolation (fine-grained markers give the valuation) and the shard resumes after it.
//!
//! Child protocol (stdout, one line per record):
//!   B <idx>                              expression idx starts (flushed)
//!   b <idx> <ctx> <event idx>            fine mode only: this evaluation starts (flushed)
//!   X <idx> <ctx>                        the parser rejects the expression in this context
//!   P <idx> <ctx> <event idx> <culprit form> <operand classes> <panic location>
//!   R <idx> <evaluations> <nontrivial> <outcome hashes, comma separated>

use crate::common::*;
use mc::{Acc, Args, Report};
use serde_json::{json, Value as J};
use std::collections::{BTreeSet, HashMap};
use std::io::{BufRead, Write};
use varpulis_core::ast::{Program, Stmt};
use varpulis_core::Value;
use varpulis_runtime::{Engine, Event};

// ---- alphabets --------------------------------------------------------------------------------

/// Boundary alphabet B, simplest first (the smallest failing valuation is kept per signature).
fn alphabet_b() -> Vec<(&'static str, Option<Value>)> {
    vec![
        ("one", Some(Value::Int(1))),
        ("zero", Some(Value::Int(0))),
        ("neg_one", Some(Value::Int(-1))),
        ("str_e_acute", Some(Value::Str("é".into()))),
        ("empty_str", Some(Value::Str("".into()))),
        ("empty_array", Some(Value::array(vec![]))),
        ("nested_array", Some(Value::array(vec![Value::array(vec![Value::Int(1)])]))),
        ("empty_map", Some(Value::map(FxMap::default()))),
        ("null", Some(Value::Null)),
        ("missing", None),
        ("neg_zero", Some(Value::Float(-0.0))),
        ("nan", Some(Value::Float(f64::NAN))),
        ("inf", Some(Value::Float(f64::INFINITY))),
        ("neg_inf", Some(Value::Float(f64::NEG_INFINITY))),
        ("huge_float", Some(Value::Float(1e308))),
        ("i64_max", Some(Value::Int(i64::MAX))),
        ("i64_min", Some(Value::Int(i64::MIN))),
    ]
}
/// Reduced alphabet for the stage-2 compositions of the quick tier.
const B_REDUCED: [&str; 8] = ["one", "neg_one", "str_e_acute", "nested_array", "missing", "nan", "i64_max", "i64_min"];
/// Alphabet of the fields n, m that feed range sizes (the property excludes range sizes: |n| ≤ 8).
fn alphabet_small() -> Vec<(&'static str, Option<Value>)> {
    vec![
        ("one", Some(Value::Int(1))),
        ("zero", Some(Value::Int(0))),
        ("neg_one", Some(Value::Int(-1))),
        ("three", Some(Value::Int(3))),
        ("eight", Some(Value::Int(8))),
        ("neg_eight", Some(Value::Int(-8))),
        ("str_e_acute", Some(Value::Str("é".into()))),
        ("empty_array", Some(Value::array(vec![]))),
        ("null", Some(Value::Null)),
        ("missing", None),
        ("neg_zero", Some(Value::Float(-0.0))),
        ("nan", Some(Value::Float(f64::NAN))),
    ]
}

const FIELDS: [&str; 5] = ["a", "b", "c", "n", "m"]; // a, b, c range over B; n, m over the small alphabet

const LITS: [(&str, i64); 9] = [("1", 1), ("-1", -1), ("0", 0), ("2", 2), ("9223372036854775807", i64::MAX), ("-9223372036854775807", -i64::MAX), ("3", 3), ("8", 8), ("-8", -8)];
const FLOAT_LIT: &str = "0.5";

// ---- expression forms -------------------------------------------------------------------------

#[derive(Clone, Debug)]
struct Form {
    /// operator / built-in / syntactic form name: the signature component
    name: String,
    /// template with $0 $1 $2 holes; unique per form
    tpl: String,
    arity: usize,
    /// used as inner/outer form of stage-2 compositions
    compose: bool,
    /// built-in call: how many leading arguments the built-in can read (the rest is ignored by
    /// eval_builtin_function and must not widen the signature); None for syntactic forms
    reads: Option<usize>,
}

#[derive(Clone, Debug, PartialEq)]
enum N {
    F(usize),
    L(String),
    Op(usize, Vec<N>),
}

struct Forms {
    v: Vec<Form>,
}

impl Forms {
    fn add(&mut self, name: &str, tpl: &str, arity: usize, compose: bool) -> usize {
        self.v.push(Form { name: name.into(), tpl: tpl.into(), arity, compose, reads: None });
        self.v.len() - 1
    }
    fn by_tpl(&self, tpl: &str) -> Option<usize> {
        self.v.iter().position(|f| f.tpl == tpl)
    }
}

const BINOPS: [(&str, &str); 23] = [
    ("add", "+"),
    ("sub", "-"),
    ("mul", "*"),
    ("div", "/"),
    ("mod", "%"),
    ("pow", "**"),
    ("eq", "=="),
    ("ne", "!="),
    ("lt", "<"),
    ("le", "<="),
    ("gt", ">"),
    ("ge", ">="),
    ("in", "in"),
    ("not_in", "not in"),
    ("is", "is"),
    ("and", "and"),
    ("or", "or"),
    ("xor", "xor"),
    ("bit_and", "&"),
    ("bit_or", "|"),
    ("bit_xor", "^"),
    ("shl", "<<"),
    ("shr", ">>"),
];
const UNOPS: [(&str, &str); 3] = [("neg", "-"), ("not", "not "), ("bit_not", "~")];
/// every name of eval_builtin_function with its natural arities, plus two names it does not know
const BUILTINS: [(&str, &[usize]); 54] = [
    ("abs", &[1]),
    ("sqrt", &[1]),
    ("floor", &[1]),
    ("ceil", &[1]),
    ("round", &[1]),
    ("pow", &[2]),
    ("log", &[1]),
    ("log10", &[1]),
    ("exp", &[1]),
    ("sin", &[1]),
    ("cos", &[1]),
    ("tan", &[1]),
    ("min", &[2]),
    ("max", &[2]),
    ("len", &[1]),
    ("first", &[1]),
    ("last", &[1]),
    ("push", &[2]),
    ("pop", &[1]),
    ("reverse", &[1]),
    ("sort", &[1]),
    ("contains", &[2]),
    ("keys", &[1]),
    ("values", &[1]),
    ("get", &[2]),
    ("set", &[3]),
    ("sum", &[1]),
    ("avg", &[1]),
    ("to_string", &[1]),
    ("to_int", &[1]),
    ("to_float", &[1]),
    ("trim", &[1]),
    ("lower", &[1]),
    ("lowercase", &[1]),
    ("upper", &[1]),
    ("uppercase", &[1]),
    ("split", &[2]),
    ("join", &[2]),
    ("replace", &[3]),
    ("starts_with", &[2]),
    ("ends_with", &[2]),
    ("substring", &[2, 3]),
    ("type_of", &[1]),
    ("is_null", &[1]),
    ("is_int", &[1]),
    ("is_float", &[1]),
    ("is_string", &[1]),
    ("is_bool", &[1]),
    ("is_array", &[1]),
    ("is_map", &[1]),
    ("variance", &[1]),
    ("count", &[1]),
    ("no_such_function", &[1]),
    ("range", &[]), // sized: only through the range forms below
];

fn args_tpl(k: usize) -> String {
    (0..k).map(|i| format!("${i}")).collect::<Vec<_>>().join(", ")
}

fn forms() -> Forms {
    let mut f = Forms { v: Vec::new() };
    for (n, s) in BINOPS {
        f.add(n, &format!("$0 {s} $1"), 2, true);
    }
    for (n, s) in UNOPS {
        f.add(n, &format!("{s}$0"), 1, true);
    }
    for (n, natural) in BUILTINS {
        if n == "range" {
            continue;
        }
        for k in 0..=3usize {
            let id = f.add(n, &format!("{n}({})", args_tpl(k)), k, natural.contains(&k));
            f.v[id].reads = natural.iter().max().copied();
        }
    }
    let id = f.add("abs", "abs(x: $0)", 1, false); // named argument
    f.v[id].reads = Some(1);
    f.add("range", "range($0)", 1, true);
    f.add("range", "range($0, $1)", 2, true);
    f.add("range_expr", "$0..$1", 2, true);
    f.add("range_expr_inclusive", "$0..=$1", 2, true);
    f.add("index", "$0[$1]", 2, true);
    f.add("slice", "$0[$1:$2]", 3, true);
    f.add("slice", "$0[:$1]", 2, true);
    f.add("slice", "$0[$1:]", 2, true);
    f.add("slice", "$0[:]", 1, true);
    f.add("member", "$0.x", 1, true);
    f.add("optional_member", "$0?.x", 1, true);
    f.add("if", "if $0 then $1 else $2", 3, true);
    f.add("array_literal", "[$0, $1]", 2, true);
    f.add("map_literal", "{\"k\": $0}", 1, true);
    f.add("map_literal", "{k: $0, j: $1}", 2, false);
    f.add("method_call", "$0.len()", 1, true);
    f.add("method_call", "$0.x($1)", 2, false);
    f.add("call_of_expression", "($0)($1)", 2, false);
    f.add("lambda", "x => $0", 1, true);
    f.add("lambda", "(x, y) => $0", 1, false);
    f.add("lambda_block", "x => { $0 }", 1, false);
    f.add("timestamp_literal", "@2024-01-01", 0, false);
    f.add("timestamp_literal", "@2024-01-01T00:00:00Z", 0, false);
    f.add("duration_literal", "5s", 0, false);
    f.add("null_literal", "null", 0, false);
    f.add("bool_literal", "true", 0, false);
    f.add("string_literal", "\"é\"", 0, false);
    f.add("coalesce", "$0 ?? $1", 2, false);
    f.add("block", "{ let x = $0; x }", 1, false);
    f
}

impl N {
    fn text(&self, fs: &Forms) -> String {
        match self {
            N::F(i) => FIELDS[*i].to_string(),
            N::L(t) => t.clone(),
            N::Op(k, ops) => {
                let mut s = fs.v[*k].tpl.clone();
                for (i, o) in ops.iter().enumerate() {
                    let t = o.text(fs);
                    let t = if matches!(o, N::Op(..)) || t.starts_with('-') { format!("({t})") } else { t };
                    s = s.replace(&format!("${i}"), &t);
                }
                s
            }
        }
    }
    fn size(&self) -> usize {
        match self {
            N::Op(_, ops) => 1 + ops.iter().map(|o| o.size()).sum::<usize>(),
            _ => 1,
        }
    }
    fn fields(&self, out: &mut BTreeSet<usize>) {
        match self {
            N::F(i) => {
                out.insert(*i);
            }
            N::L(_) => {}
            N::Op(_, ops) => ops.iter().for_each(|o| o.fields(out)),
        }
    }
    fn to_json(&self, fs: &Forms) -> J {
        match self {
            N::F(i) => json!({"field": FIELDS[*i]}),
            N::L(t) => json!({"lit": t}),
            N::Op(k, ops) => json!({"form": fs.v[*k].tpl, "name": fs.v[*k].name, "args": ops.iter().map(|o| o.to_json(fs)).collect::<Vec<_>>()}),
        }
    }
    fn from_json(j: &J, fs: &Forms) -> N {
        if let Some(f) = j["field"].as_str() {
            return N::F(FIELDS.iter().position(|x| *x == f).unwrap_or_else(|| mc::machinery_error("replay: unknown field")));
        }
        if let Some(l) = j["lit"].as_str() {
            return N::L(l.to_string());
        }
        let k = j["form"].as_str().and_then(|t| fs.by_tpl(t)).unwrap_or_else(|| mc::machinery_error(&format!("replay: unknown form {j}")));
        N::Op(k, j["args"].as_array().map(|a| a.iter().map(|x| N::from_json(x, fs)).collect()).unwrap_or_default())
    }
}

/// Stage 1: every form applied to fields (and the literal-operand / boundary-index variants).
fn stage1(fs: &Forms) -> Vec<N> {
    let mut v = Vec::new();
    let lit = |t: &str| N::L(t.to_string());
    for (k, f) in fs.v.iter().enumerate() {
        let sized = matches!(f.name.as_str(), "range" | "range_expr" | "range_expr_inclusive");
        if sized {
            // fields n, m (small alphabet) and every combination of small literals
            v.push(N::Op(k, (0..f.arity).map(|i| N::F(3 + i)).collect()));
            let small = ["0", "3", "8", "-8"];
            if f.arity == 1 {
                small.iter().for_each(|a| v.push(N::Op(k, vec![lit(a)])));
            } else {
                for a in small {
                    for b in small {
                        v.push(N::Op(k, vec![lit(a), lit(b)]));
                    }
                }
            }
            continue;
        }
        v.push(N::Op(k, (0..f.arity).map(N::F).collect()));
    }
    // arithmetic with one literal operand (these go through the fold pass as well)
    for (name, _) in &BINOPS[..6] {
        let k = fs.v.iter().position(|f| f.name == *name).unwrap();
        for l in LITS.iter().map(|l| l.0).take(6).chain([FLOAT_LIT]) {
            v.push(N::Op(k, vec![N::F(0), lit(l)]));
            v.push(N::Op(k, vec![lit(l), N::F(0)]));
        }
    }
    // index / slice with boundary literal indices
    let idx = fs.by_tpl("$0[$1]").unwrap();
    let sl = fs.by_tpl("$0[$1:$2]").unwrap();
    let bounds = ["0", "-1", "1", "9223372036854775807", "-9223372036854775807"];
    for b in bounds {
        v.push(N::Op(idx, vec![N::F(0), lit(b)]));
        for c in bounds {
            v.push(N::Op(sl, vec![N::F(0), lit(b), lit(c)]));
        }
    }
    v
}

/// Stage 2: outer form (composable, any hole position) over one inner stage-1 expression whose
/// operands are fields a, b; the outer form's other holes are field c. `excluded` = names of forms
/// that did not return at stage 1 (they are findings already and would only multiply).
fn stage2(fs: &Forms, excluded: &BTreeSet<String>) -> Vec<N> {
    let ok = |f: &Form| f.compose && !excluded.contains(&f.name) && !matches!(f.name.as_str(), "range" | "range_expr" | "range_expr_inclusive");
    let inners: Vec<N> = fs.v.iter().enumerate().filter(|(_, f)| ok(f) && (1..=2).contains(&f.arity)).map(|(k, f)| N::Op(k, (0..f.arity).map(N::F).collect())).collect();
    let mut v = Vec::new();
    for inner in &inners {
        for (k, f) in fs.v.iter().enumerate() {
            if !ok(f) || f.arity == 0 {
                continue;
            }
            for pos in 0..f.arity {
                let ops: Vec<N> = (0..f.arity).map(|i| if i == pos { inner.clone() } else { N::F(2) }).collect();
                v.push(N::Op(k, ops));
            }
        }
    }
    // range sizes fed by a composed expression stay small: sum/len of a small range, range of len
    let r1 = fs.by_tpl("range($0)").unwrap();
    for outer in ["sum($0)", "len($0)", "reverse($0)", "first($0)", "$0[$1]"] {
        let k = fs.by_tpl(outer).unwrap();
        let mut ops = vec![N::Op(r1, vec![N::F(3)])];
        if fs.v[k].arity == 2 {
            ops.push(N::F(2));
        }
        v.push(N::Op(k, ops));
    }
    v
}

// ---- events -----------------------------------------------------------------------------------

struct Alph {
    b: Vec<(&'static str, Option<Value>)>,
    small: Vec<(&'static str, Option<Value>)>,
}

impl Alph {
    fn new(reduced: bool) -> Self {
        let mut b = alphabet_b();
        if reduced {
            b.retain(|(n, _)| B_REDUCED.contains(n));
        }
        Alph { b, small: alphabet_small() }
    }
    fn of(&self, field: usize) -> &[(&'static str, Option<Value>)] {
        if field < 3 {
            &self.b
        } else {
            &self.small
        }
    }
    /// number of valuations of the fields used by the expression
    fn count(&self, fields: &[usize]) -> u64 {
        fields.iter().map(|f| self.of(*f).len() as u64).product()
    }
    /// valuation `i` (first field varies fastest)
    fn valuation(&self, fields: &[usize], mut i: u64) -> Vec<(usize, &'static str, Option<Value>)> {
        fields
            .iter()
            .map(|f| {
                let a = self.of(*f);
                let (name, v) = &a[(i % a.len() as u64) as usize];
                i /= a.len() as u64;
                (*f, *name, v.clone())
            })
            .collect()
    }
}

fn mk_event(val: &[(usize, &'static str, Option<Value>)]) -> Event {
    let fields: Vec<(&str, Option<Value>)> = val.iter().map(|(f, _, v)| (FIELDS[*f], v.clone())).collect();
    event("E", 0, &fields)
}

// ---- operand classes and signatures -------------------------------------------------------------

fn class(v: &Option<Value>) -> &'static str {
    match v {
        None => "no_value",
        // within 8 of the extreme (the literal alphabet has −i64::MAX = i64::MIN + 1)
        Some(Value::Int(n)) if *n <= i64::MIN + 8 => "i64_min",
        Some(Value::Int(n)) if *n >= i64::MAX - 8 => "i64_max",
        Some(Value::Int(_)) => "int",
        Some(Value::Float(f)) if f.is_nan() => "nan",
        Some(Value::Float(f)) if f.is_infinite() => "inf",
        Some(Value::Float(f)) if f.abs() >= 1e300 => "huge_float",
        Some(Value::Float(_)) => "float",
        Some(Value::Str(_)) => "str",
        Some(Value::Array(_)) => "array",
        Some(Value::Map(_)) => "map",
        Some(Value::Null) => "null",
        Some(Value::Bool(_)) => "bool",
        Some(Value::Timestamp(_)) => "timestamp",
        Some(Value::Duration(_)) => "duration",
    }
}

/// One scope per (form, extreme operand classes): the extremes present among the operands when there
/// are any, otherwise the plain class list.
fn class_summary(classes: &[&str]) -> String {
    let ext: BTreeSet<&str> = classes.iter().copied().filter(|c| matches!(*c, "i64_min" | "i64_max" | "nan" | "inf" | "huge_float")).collect();
    if ext.is_empty() {
        if classes.is_empty() {
            "no_operands".into()
        } else {
            classes.join(",")
        }
    } else {
        ext.into_iter().collect::<Vec<_>>().join("+")
    }
}

// ---- running one expression (child side) --------------------------------------------------------

#[derive(Debug)]
enum Obs {
    Value(Option<Value>),
    Accepted(bool),
    EngineError(String),
    Panic { loc: String, msg: String },
}

struct Eng {
    eng: Engine,
    rx: tokio::sync::mpsc::Receiver<Event>,
}

struct Runner {
    rt: tokio::runtime::Runtime,
}

impl Runner {
    fn load(&self, p: &Program) -> Result<Eng, String> {
        let (tx, rx) = tokio::sync::mpsc::channel(64);
        let mut eng = Engine::new(tx);
        match mc::catch(|| eng.load(p)) {
            Ok(Ok(())) => Ok(Eng { eng, rx }),
            Ok(Err(e)) => Err(format!("load: {}", first_line(&e))),
            Err(m) => Err(format!("load panicked: {}", first_line(&m))),
        }
    }
    /// One evaluation: process one event on the (reused) engine; a panicked engine is rebuilt.
    fn eval(&mut self, p: &Program, slot: &mut Option<Eng>, ev: Event, filter_ctx: bool) -> Obs {
        if slot.is_none() {
            match self.load(p) {
                Ok(e) => *slot = Some(e),
                Err(e) => return Obs::EngineError(e),
            }
        }
        let e = slot.as_mut().unwrap();
        let rt = &self.rt;
        let r = mc::catch(|| rt.block_on(e.eng.process(ev)));
        match r {
            Err(msg) => {
                *slot = None;
                self.rt = runtime();
                Obs::Panic { loc: mc::last_panic_location(), msg: first_line(&msg) }
            }
            Ok(Err(err)) => Obs::EngineError(first_line(&err)),
            Ok(Ok(())) => {
                let mut outs = Vec::new();
                while let Ok(o) = e.rx.try_recv() {
                    outs.push(o);
                }
                if filter_ctx {
                    Obs::Accepted(!outs.is_empty())
                } else {
                    Obs::Value(outs.first().and_then(|o| o.data.get("r").cloned()))
                }
            }
        }
    }
}

fn stream_name(p: &Program) -> Option<String> {
    match &p.statements.first()?.node {
        Stmt::StreamDecl { name, .. } => Some(name.clone()),
        _ => None,
    }
}

/// Parse many single-stream snippets with as few parser calls as possible (a call costs ~10 ms);
/// a rejected batch is bisected so that the error lands on its snippet.
fn parse_many(snips: &[(String, String)], out: &mut HashMap<String, Result<Program, String>>) {
    if snips.is_empty() {
        return;
    }
    let src = snips.iter().map(|(_, s)| s.as_str()).collect::<Vec<_>>().join("\n");
    match varpulis_parser::parse(&src) {
        Ok(p) if p.statements.len() == snips.len() => {
            for st in p.statements {
                let single = Program { statements: vec![st] };
                match stream_name(&single) {
                    Some(n) => {
                        out.insert(n, Ok(single));
                    }
                    None => mc::machinery_error("batch parse returned a non-stream statement"),
                }
            }
        }
        Ok(_) if snips.len() == 1 => {
            out.insert(snips[0].0.clone(), Err("parsed into a different number of statements".into()));
        }
        Err(e) if snips.len() == 1 => {
            out.insert(snips[0].0.clone(), Err(first_line(&e.to_string())));
        }
        _ => {
            let (a, b) = snips.split_at(snips.len() / 2);
            parse_many(a, out);
            parse_many(b, out);
        }
    }
}

const CTX_EMIT: &str = "emit";
const CTX_WHERE: &str = "where";

fn snippet(name: &str, ctx: &str, expr: &str) -> String {
    if ctx == CTX_WHERE {
        format!("stream {name} = E\n    .where({expr})\n    .emit(ok: 1)\n")
    } else {
        format!("stream {name} = E\n    .emit(r: {expr})\n")
    }
}

fn eval_sub(run: &mut Runner, fs: &Forms, sub: &N, ev: &Event, progs: &mut HashMap<String, Result<Program, String>>) -> Obs {
    let text = sub.text(fs);
    let key = format!("sub:{text}");
    if !progs.contains_key(&key) {
        let mut m = HashMap::new();
        parse_many(&[("Q".to_string(), snippet("Q", CTX_EMIT, &text))], &mut m);
        progs.insert(key.clone(), m.remove("Q").unwrap_or(Err("lost".into())));
    }
    match progs[&key].clone() {
        Ok(p) => {
            let mut slot = None;
            run.eval(&p, &mut slot, ev.clone(), false)
        }
        Err(e) => Obs::EngineError(e),
    }
}

/// Which sub-expression panics by itself on this valuation (innermost, leftmost), with the classes
/// of its operand values. Sub-expressions are evaluated by the real engine too.
fn culprit(run: &mut Runner, fs: &Forms, n: &N, ev: &Event, progs: &mut HashMap<String, Result<Program, String>>) -> (String, Vec<&'static str>) {
    if let N::Op(k, ops) = n {
        let mut classes = Vec::new();
        for o in ops {
            match o {
                N::Op(..) => match eval_sub(run, fs, o, ev, progs) {
                    Obs::Panic { .. } => return culprit(run, fs, o, ev, progs),
                    Obs::Value(v) => classes.push(class(&v)),
                    _ => classes.push("no_value"),
                },
                N::F(i) => classes.push(class(&ev.data.get(FIELDS[*i]).cloned())),
                N::L(t) => classes.push(class(&Some(match t.parse::<i64>() {
                    Ok(i) => Value::Int(i),
                    Err(_) => Value::Float(t.parse().unwrap_or(0.0)),
                }))),
            }
        }
        if let Some(r) = fs.v[*k].reads {
            // a call drops arguments that have no value before the built-in sees them, then the
            // built-in reads at most `r` leading arguments
            classes.retain(|c| *c != "no_value");
            classes.truncate(r);
        }
        return (fs.v[*k].name.clone(), classes);
    }
    ("atom".into(), vec![])
}

struct ChildCfg {
    stage: u32,
    lo: usize,
    hi: usize,
    fine: bool,
    reduced: bool,
    excluded: BTreeSet<String>,
    /// replay: only this context / valuation
    only: Option<(String, u64)>,
    /// seconds this child may run before it stops between two expressions (line `T <idx>`)
    budget_s: u64,
}

fn expr_list(fs: &Forms, stage: u32, excluded: &BTreeSet<String>) -> Vec<N> {
    if stage == 1 {
        stage1(fs)
    } else {
        stage2(fs, excluded)
    }
}

fn used_fields(n: &N) -> Vec<usize> {
    let mut s = BTreeSet::new();
    n.fields(&mut s);
    s.into_iter().collect()
}

fn child_run(fs: &Forms, exprs: &[N], cfg: &ChildCfg) {
    let alph = Alph::new(cfg.reduced);
    let out = std::io::stdout();
    let mut run = Runner { rt: runtime() };
    let ctxs: &[&str] = if cfg.stage == 1 { &[CTX_EMIT, CTX_WHERE] } else { &[CTX_EMIT] };
    // one parser call for the whole shard
    let mut snips = Vec::new();
    for i in cfg.lo..cfg.hi.min(exprs.len()) {
        let t = exprs[i].text(fs);
        for c in ctxs {
            let name = format!("{}{}", if *c == CTX_EMIT { "M" } else { "W" }, i);
            snips.push((name.clone(), snippet(&name, c, &t)));
        }
    }
    let mut progs: HashMap<String, Result<Program, String>> = HashMap::new();
    parse_many(&snips, &mut progs);
    let t0 = std::time::Instant::now();
    for i in cfg.lo..cfg.hi.min(exprs.len()) {
        if t0.elapsed().as_secs() >= cfg.budget_s {
            println!("T {i}");
            return;
        }
        let n = &exprs[i];
        let fields = used_fields(n);
        let total = alph.count(&fields);
        {
            let mut o = out.lock();
            let _ = writeln!(o, "B {i}");
            let _ = o.flush();
        }
        let (mut evals, mut nontrivial) = (0u64, 0u64);
        let mut outcomes: BTreeSet<u64> = BTreeSet::new();
        let mut lines = Vec::new();
        for c in ctxs {
            if cfg.only.as_ref().is_some_and(|(oc, _)| oc != c) {
                continue;
            }
            let name = format!("{}{}", if *c == CTX_EMIT { "M" } else { "W" }, i);
            let prog = match progs.get(&name) {
                Some(Ok(p)) => p.clone(),
                _ => {
                    lines.push(format!("X {i} {c}"));
                    continue;
                }
            };
            let mut slot = None;
            for vi in 0..total {
                if cfg.only.as_ref().is_some_and(|(_, ov)| *ov != vi) {
                    continue;
                }
                let val = alph.valuation(&fields, vi);
                let ev = mk_event(&val);
                if cfg.fine {
                    let mut o = out.lock();
                    let _ = writeln!(o, "b {i} {c} {vi}");
                    let _ = o.flush();
                }
                evals += 1;
                let obs = run.eval(&prog, &mut slot, ev.clone(), *c == CTX_WHERE);
                match &obs {
                    Obs::Panic { loc, msg } => {
                        nontrivial += 1;
                        outcomes.insert(mc::hash_of(&("panic", loc)));
                        let (name, classes) = culprit(&mut run, fs, n, &ev, &mut progs);
                        if lines.len() < 4000 {
                            lines.push(format!("P {i} {c} {vi} {name} {} {} {}", if classes.is_empty() { "-".to_string() } else { classes.join(",") }, if loc.is_empty() { "-" } else { loc }, msg.replace(['\n', '\r'], " ")));
                        } else {
                            lines.push(format!("p {i}"));
                        }
                    }
                    Obs::Value(v) => {
                        if v.is_some() {
                            nontrivial += 1;
                        }
                        if outcomes.len() < 64 {
                            outcomes.insert(mc::hash_of(&v.as_ref().map(show)));
                        }
                    }
                    Obs::Accepted(a) => {
                        if *a {
                            nontrivial += 1;
                        }
                        outcomes.insert(mc::hash_of(&("accepted", a)));
                    }
                    Obs::EngineError(e) => {
                        outcomes.insert(mc::hash_of(&("engine_error", e)));
                        if e.starts_with("load") {
                            break; // the engine refuses the program: nothing to evaluate in this context
                        }
                    }
                }
            }
        }
        let mut o = out.lock();
        for l in lines {
            let _ = writeln!(o, "{l}");
        }
        let _ = writeln!(o, "R {i} {evals} {nontrivial} {}", outcomes.iter().map(|h| h.to_string()).collect::<Vec<_>>().join(","));
        let _ = o.flush();
    }
}

// ---- parent side --------------------------------------------------------------------------------

#[derive(Default)]
struct ShardOut {
    timed_out: bool,
    lines: Vec<String>,
    /// (idx, Some((ctx, valuation)) if the fine run located it, kind = "abort" | "hang" | "exit<code>")
    deaths: Vec<(usize, Option<(String, u64)>, String)>,
    unreproduced: u64,
    children: u64,
}

enum End {
    Done,
    /// the child stopped at the wall cap before expression idx
    TimedOut,
    Died(String),
}

/// Run one child over [lo, hi); returns its lines, the expression / evaluation in flight when it
/// ended, and how it ended.
fn spawn_child(args: &Args, cfg: &ChildCfg, lines: &mut Vec<String>) -> (Option<usize>, Option<(String, u64)>, End) {
    let exe = std::env::current_exe().unwrap_or_else(|e| mc::machinery_error(&format!("current_exe: {e}")));
    let mut cmd = std::process::Command::new(exe);
    cmd.arg("C11").arg("--tier").arg(args.tier.name()).arg("child").arg(cfg.stage.to_string()).arg(cfg.lo.to_string()).arg(cfg.hi.to_string());
    cmd.arg(if cfg.fine { "fine" } else { "coarse" }).arg(if cfg.reduced { "reduced" } else { "full" });
    cmd.arg(format!("excluded={}", cfg.excluded.iter().cloned().collect::<Vec<_>>().join(",")));
    if let Some((c, v)) = &cfg.only {
        cmd.arg(format!("only={c}:{v}"));
    }
    cmd.arg(format!("budget={}", cfg.budget_s));
    cmd.stdin(std::process::Stdio::null()).stdout(std::process::Stdio::piped()).stderr(std::process::Stdio::null());
    let mut child = cmd.spawn().unwrap_or_else(|e| mc::machinery_error(&format!("cannot spawn child: {e}")));
    let stdout = child.stdout.take().unwrap();
    let (tx, rx) = std::sync::mpsc::channel::<String>();
    let reader = std::thread::spawn(move || {
        for l in std::io::BufReader::new(stdout).lines().map_while(Result::ok) {
            if tx.send(l).is_err() {
                break;
            }
        }
    });
    let mut in_flight: Option<usize> = None;
    let mut fine_at: Option<(String, u64)> = None;
    let idle = std::time::Duration::from_secs(90);
    let mut hung = false;
    let mut timed_out = false;
    loop {
        match rx.recv_timeout(idle) {
            Ok(l) => {
                let mut it = l.split(' ');
                match it.next() {
                    Some("B") => {
                        in_flight = it.next().and_then(|x| x.parse().ok());
                        fine_at = None;
                    }
                    Some("b") => {
                        let _ = it.next();
                        if let (Some(c), Some(v)) = (it.next(), it.next().and_then(|x| x.parse().ok())) {
                            fine_at = Some((c.to_string(), v));
                        }
                    }
                    Some("R") => {
                        in_flight = None;
                        lines.push(l);
                    }
                    Some("T") => timed_out = true,
                    _ => lines.push(l),
                }
            }
            Err(std::sync::mpsc::RecvTimeoutError::Timeout) => {
                hung = true;
                let _ = child.kill();
                break;
            }
            Err(std::sync::mpsc::RecvTimeoutError::Disconnected) => break,
        }
    }
    let status = child.wait();
    let _ = reader.join();
    use std::os::unix::process::ExitStatusExt;
    let end = match status {
        _ if hung => End::Died("hang".into()),
        Ok(s) if s.success() && timed_out => End::TimedOut,
        Ok(s) if s.success() => End::Done,
        Ok(s) if s.code() == Some(2) => mc::machinery_error("a C11 child reported a machinery error"),
        Ok(s) => match s.signal() {
            Some(_) => End::Died("abort".into()),
            None => End::Died(format!("exit_code_{}", s.code().unwrap_or(-1))),
        },
        Err(e) => mc::machinery_error(&format!("wait: {e}")),
    };
    (in_flight, fine_at, end)
}

/// Run a shard to completion, restarting after every child death.
fn run_shard(args: &Args, stage: u32, lo: usize, hi: usize, reduced: bool, excluded: &BTreeSet<String>, t_end: std::time::Instant) -> ShardOut {
    let mut out = ShardOut::default();
    let mut cur = lo;
    while cur < hi {
        let budget_s = t_end.saturating_duration_since(std::time::Instant::now()).as_secs();
        if budget_s == 0 {
            out.timed_out = true;
            break;
        }
        let cfg = ChildCfg { stage, lo: cur, hi, fine: false, reduced, excluded: excluded.clone(), only: None, budget_s };
        out.children += 1;
        let (in_flight, _, end) = spawn_child(args, &cfg, &mut out.lines);
        match end {
            End::Done => break,
            End::TimedOut => {
                out.timed_out = true;
                break;
            }
            End::Died(kind) => {
                let Some(idx) = in_flight else { mc::machinery_error(&format!("a C11 child ended abnormally ({kind}) outside any expression")) };
                // drop partial records of the expression in flight, then confirm it in isolation
                out.lines.retain(|l| l.split(' ').nth(1).and_then(|x| x.parse::<usize>().ok()) != Some(idx));
                let cfg1 = ChildCfg { stage, lo: idx, hi: idx + 1, fine: true, reduced, excluded: excluded.clone(), only: None, budget_s: 600 };
                let mut lines1 = Vec::new();
                out.children += 1;
                let (_, at, end1) = spawn_child(args, &cfg1, &mut lines1);
                match end1 {
                    End::Died(kind1) => out.deaths.push((idx, at, kind1)),
                    End::Done | End::TimedOut => {
                        // the isolated run completed: not a verdict, keep its records
                        out.unreproduced += 1;
                        out.lines.extend(lines1);
                    }
                }
                cur = idx + 1;
            }
        }
    }
    out
}

fn valuation_json(alph: &Alph, n: &N, vi: u64) -> (J, String, Vec<&'static str>) {
    let fields = used_fields(n);
    let val = alph.valuation(&fields, vi);
    let mut m = serde_json::Map::new();
    let mut txt = Vec::new();
    let mut classes = Vec::new();
    for (f, name, v) in &val {
        m.insert(FIELDS[*f].to_string(), json!({"name": name, "value": enc_opt(v)}));
        txt.push(format!("{} = {}", FIELDS[*f], show_opt(v)));
        classes.push(class(v));
    }
    (J::Object(m), if txt.is_empty() { "no fields".to_string() } else { txt.join(", ") }, classes)
}

#[allow(clippy::too_many_arguments)]
fn absorb_shard(fs: &Forms, exprs: &[N], stage: u32, alph: &Alph, reduced: bool, excluded: &BTreeSet<String>, so: ShardOut, acc: &mut Acc, dead_forms: &mut BTreeSet<String>) {
    acc.count("child_processes", so.children);
    if so.unreproduced > 0 {
        acc.count("child_deaths_not_reproduced_in_isolation", so.unreproduced);
    }
    let case = |n: &N, ctx: &str, vi: u64, kind: &str| {
        let (fields, _, _) = valuation_json(alph, n, vi);
        json!({"kind": kind, "stage": stage, "expr": n.text(fs), "tree": n.to_json(fs), "ctx": ctx, "valuation": vi, "fields": fields, "reduced_alphabet": reduced, "excluded": excluded.iter().collect::<Vec<_>>()})
    };
    for l in &so.lines {
        let p: Vec<&str> = l.splitn(8, ' ').collect();
        match p[0] {
            "R" => {
                acc.evaluations += p[2].parse::<u64>().unwrap_or(0);
                acc.nontrivial += p[3].parse::<u64>().unwrap_or(0);
                for h in p.get(4).unwrap_or(&"").split(',').filter_map(|x| x.parse::<u64>().ok()) {
                    acc.outcomes.insert(h);
                }
                acc.count("expressions_run", 1);
            }
            "X" => {
                acc.count("rejected_by_parser_(expression,context)", 1);
                if let Some(n) = p.get(1).and_then(|x| x.parse::<usize>().ok()).and_then(|i| exprs.get(i)) {
                    acc.samples.push(json!({"rejected_by_parser": n.text(fs), "ctx": p.get(2)}));
                    if let (1, N::Op(k, ops)) = (stage, n) {
                        if ops.iter().all(|o| matches!(o, N::F(_))) {
                            dead_forms.insert(fs.v[*k].name.clone());
                        }
                    }
                }
            }
            "p" => acc.count("panics_beyond_the_per_expression_report_limit", 1),
            "P" => {
                let idx: usize = p[1].parse().unwrap_or(0);
                let (ctx, vi) = (p[2], p[3].parse::<u64>().unwrap_or(0));
                let n = &exprs[idx];
                let classes: Vec<&str> = if p[5] == "-" { vec![] } else { p[5].split(',').collect() };
                let (_, vtxt, _) = valuation_json(alph, n, vi);
                acc.viol.add(
                    format!("C11:panic:{}:{}", p[4], class_summary(&classes)),
                    format!("`.{ctx}({}{})` with {vtxt} panics at {}: {} (panicking sub-expression form: {}, operand classes: {})", if ctx == CTX_EMIT { "r: " } else { "" }, n.text(fs), p[6], p.get(7).unwrap_or(&""), p[4], p[5]),
                    case(n, ctx, vi, "panic"),
                    n.size() * 1_000_000 + vi as usize,
                );
            }
            _ => {}
        }
    }
    for (idx, at, kind) in &so.deaths {
        let n = &exprs[*idx];
        acc.evaluations += 1;
        acc.nontrivial += 1;
        acc.outcomes.insert(mc::hash_of(&("death", kind)));
        let (ctx, vi) = at.clone().unwrap_or((CTX_EMIT.to_string(), 0));
        let (_, vtxt, _) = valuation_json(alph, n, vi);
        let form = match n {
            N::Op(k, ops) => {
                let inner: Vec<String> = ops
                    .iter()
                    .filter_map(|o| match o {
                        N::Op(j, _) => Some(fs.v[*j].name.clone()),
                        _ => None,
                    })
                    .collect();
                if stage == 1 {
                    dead_forms.insert(fs.v[*k].name.clone());
                }
                if inner.is_empty() {
                    fs.v[*k].name.clone()
                } else {
                    format!("{}_of_{}", fs.v[*k].name, inner.join("_"))
                }
            }
            _ => "atom".into(),
        };
        let what = match kind.as_str() {
            "abort" => "the process is killed by a signal (stack overflow / abort)".to_string(),
            "hang" => "the evaluation does not return (child killed after 90 s of silence)".to_string(),
            k => format!("the process exits abnormally ({k})"),
        };
        let sigkind = if kind == "abort" || kind == "hang" { kind.as_str() } else { "abnormal_exit" };
        acc.viol.add(
            format!("C11:{sigkind}:{form}"),
            format!("`.{ctx}({}{})` with {vtxt}: {what}; confirmed in a child process running this expression alone (remaining valuations of the expression were not run)", if ctx == CTX_EMIT { "r: " } else { "" }, n.text(fs)),
            case(n, &ctx, vi, "death"),
            n.size() * 1_000_000 + vi as usize,
        );
    }
}

fn self_test(fs: &Forms) {
    let add = fs.by_tpl("$0 + $1").unwrap();
    let abs1 = fs.by_tpl("abs($0)").unwrap();
    let n = N::Op(add, vec![N::Op(abs1, vec![N::F(0)]), N::L("-1".into())]);
    assert_eq!(n.text(fs), "(abs(a)) + (-1)");
    assert_eq!(N::from_json(&n.to_json(fs), fs), n);
    assert_eq!(N::Op(fs.by_tpl("x => { $0 }").unwrap(), vec![N::F(0)]).text(fs), "x => { a }");
    assert_eq!(N::Op(fs.by_tpl("{\"k\": $0}").unwrap(), vec![N::F(1)]).text(fs), "{\"k\": b}");
    let tpls: BTreeSet<&str> = fs.v.iter().map(|f| f.tpl.as_str()).collect();
    assert_eq!(tpls.len(), fs.v.len(), "form templates are unique");
    assert_eq!(class_summary(&["i64_max", "int"]), "i64_max");
    assert_eq!(class_summary(&["int", "str"]), "int,str");
    assert_eq!(class_summary(&["i64_min", "i64_max"]), "i64_max+i64_min");
    let a = Alph::new(false);
    assert_eq!(a.count(&[0, 1, 3]), 17 * 17 * 12);
    let v = a.valuation(&[0, 1], 17 + 2);
    assert_eq!((v[0].1, v[1].1), ("neg_one", "zero"));
    // every range size operand is a small literal or a small-alphabet field
    for n in stage1(fs).iter().chain(stage2(fs, &BTreeSet::new()).iter()) {
        fn check(n: &N, fs: &Forms) {
            if let N::Op(k, ops) = n {
                if matches!(fs.v[*k].name.as_str(), "range" | "range_expr" | "range_expr_inclusive") {
                    for o in ops {
                        assert!(matches!(o, N::F(3) | N::F(4)) || matches!(o, N::L(t) if t.parse::<i64>().is_ok_and(|x| x.abs() <= 8)), "range size operand must be small: {}", n.text(fs));
                    }
                }
                ops.iter().for_each(|o| check(o, fs));
            }
        }
        check(n, fs);
    }
}

pub fn run(args: &Args) -> ! {
    let fs = forms();
    // ---- child mode
    if args.extra.first().map(String::as_str) == Some("child") {
        mc::quiet_panics();
        let x = &args.extra;
        let get = |i: usize| x.get(i).cloned().unwrap_or_else(|| mc::machinery_error("child: missing argument"));
        let excluded: BTreeSet<String> = x.iter().find_map(|a| a.strip_prefix("excluded=")).unwrap_or("").split(',').filter(|s| !s.is_empty()).map(String::from).collect();
        let only = x.iter().find_map(|a| a.strip_prefix("only=")).map(|s| {
            let (c, v) = s.split_once(':').unwrap_or_else(|| mc::machinery_error("child: bad only="));
            (c.to_string(), v.parse::<u64>().unwrap_or_else(|_| mc::machinery_error("child: bad only=")))
        });
        let stage: u32 = get(1).parse().unwrap_or_else(|_| mc::machinery_error("child: bad stage"));
        let budget_s = x.iter().find_map(|a| a.strip_prefix("budget=")).and_then(|s| s.parse().ok()).unwrap_or(3600);
        let cfg = ChildCfg { stage, lo: get(2).parse().unwrap_or(0), hi: get(3).parse().unwrap_or(0), fine: get(4) == "fine", reduced: get(5) == "reduced", excluded, only, budget_s };
        let exprs = match x.iter().find_map(|a| a.strip_prefix("tree=")) {
            // replay: the expression tree comes from the replay file
            Some(path) => vec![N::from_json(&mc::load_replay(std::path::Path::new(path))["tree"], &fs)],
            None => expr_list(&fs, stage, &cfg.excluded),
        };
        child_run(&fs, &exprs, &cfg);
        std::process::exit(0);
    }

    self_test(&fs);
    mc::quiet_panics();
    let mut rep = Report::new(args, "exploration");
    let thorough = args.tier == mc::Tier::Thorough;

    // ---- replay: run exactly the recorded (expression, context, valuation) in a child
    if let Some(path) = &args.replay {
        let case = mc::load_replay(path);
        let n = N::from_json(&case["tree"], &fs);
        let reduced = case["reduced_alphabet"].as_bool().unwrap_or(false);
        let alph = Alph::new(reduced);
        let ctx = case["ctx"].as_str().unwrap_or(CTX_EMIT).to_string();
        let vi = case["valuation"].as_u64().unwrap_or(0);
        let stage = case["stage"].as_u64().unwrap_or(1) as u32;
        let excluded: BTreeSet<String> = case["excluded"].as_array().map(|a| a.iter().filter_map(|s| s.as_str().map(String::from)).collect()).unwrap_or_default();
        let exe = std::env::current_exe().unwrap();
        let out = std::process::Command::new(exe)
            .args(["C11", "--tier", args.tier.name(), "child", &stage.to_string(), "0", "1", "fine", if reduced { "reduced" } else { "full" }])
            .arg(format!("only={ctx}:{vi}"))
            .arg(format!("tree={}", path.display()))
            .stdin(std::process::Stdio::null())
            .stderr(std::process::Stdio::null())
            .output()
            .unwrap_or_else(|e| mc::machinery_error(&format!("cannot spawn child: {e}")));
        let mut so = ShardOut { children: 1, ..Default::default() };
        let text = String::from_utf8_lossy(&out.stdout);
        for l in text.lines() {
            if l.starts_with("P ") || l.starts_with("R ") || l.starts_with("X ") {
                so.lines.push(l.to_string());
            }
        }
        use std::os::unix::process::ExitStatusExt;
        if !out.status.success() {
            let kind = if out.status.signal().is_some() { "abort".to_string() } else { format!("exit_code_{}", out.status.code().unwrap_or(-1)) };
            so.lines.clear();
            so.deaths.push((0, Some((ctx.clone(), vi)), kind));
        }
        let mut acc = Acc::default();
        let mut dead = BTreeSet::new();
        absorb_shard(&fs, &[n], stage, &alph, reduced, &excluded, so, &mut acc, &mut dead);
        rep.absorb(acc);
        rep.evaluations = rep.evaluations.max(1);
        rep.finish();
    }

    let cap = wall_cap(args.tier, 32, 1080);
    let t_end = std::time::Instant::now() + cap;
    let deadline = mc::Deadline::after(cap);
    let capped = std::sync::atomic::AtomicBool::new(false);
    let mut dead_forms: BTreeSet<String> = BTreeSet::new();
    let none = BTreeSet::new();
    for stage in [1u32, 2] {
        let reduced = stage == 2 && !thorough;
        let alph = Alph::new(reduced);
        let excluded = if stage == 1 { none.clone() } else { dead_forms.clone() };
        let exprs = expr_list(&fs, stage, &excluded);
        // shards of roughly equal work (expressions with 3 fields dominate)
        let weight = |n: &N| alph.count(&used_fields(n)).max(1) + 200;
        let target: u64 = exprs.iter().map(weight).sum::<u64>() / (args.threads as u64 * 6).max(1) + 1;
        let mut shards: Vec<(usize, usize)> = Vec::new();
        let (mut lo, mut w) = (0usize, 0u64);
        for (i, n) in exprs.iter().enumerate() {
            w += weight(n);
            if w >= target || i + 1 - lo >= 96 {
                shards.push((lo, i + 1));
                lo = i + 1;
                w = 0;
            }
        }
        if lo < exprs.len() {
            shards.push((lo, exprs.len()));
        }
        let results: std::sync::Mutex<Vec<ShardOut>> = std::sync::Mutex::new(Vec::new());
        let (_, done) = mc::par_items(&shards, args.threads, |(lo, hi), _| {
            if deadline.expired() {
                return false;
            }
            let so = run_shard(args, stage, *lo, *hi, reduced, &excluded, t_end);
            let stop = so.timed_out;
            results.lock().unwrap().push(so);
            if stop {
                capped.store(true, std::sync::atomic::Ordering::Relaxed);
            }
            !stop
        });
        let mut acc = Acc::default();
        for so in results.into_inner().unwrap() {
            absorb_shard(&fs, &exprs, stage, &alph, reduced, &excluded, so, &mut acc, &mut dead_forms);
        }
        let mut rejected: Vec<J> = acc.samples.drain(..).collect();
        rejected.sort_by_key(|j| j.to_string());
        rejected.dedup();
        rep.set(&format!("stage{stage}_rejected_by_parser_count"), json!(rejected.len()));
        rejected.truncate(60);
        rep.set(&format!("stage{stage}_rejected_by_parser_examples"), json!(rejected));
        rep.absorb(acc);
        rep.set(&format!("stage{stage}_expressions"), json!(exprs.len()));
        rep.set(&format!("stage{stage}_valuations"), json!(exprs.iter().map(|n| alph.count(&used_fields(n))).sum::<u64>()));
        if let Some(n) = exprs.get(exprs.len() / 2) {
            rep.sample(json!({"stage": stage, "expr": n.text(&fs), "contexts": if stage == 1 { ".emit(r: EXPR), .where(EXPR)" } else { ".emit(r: EXPR)" }, "valuations": alph.count(&used_fields(n))}));
        }
        if !done || capped.load(std::sync::atomic::Ordering::Relaxed) {
            rep.cap_hit(&format!("wall cap during stage {stage}"));
            break;
        }
    }
    rep.set("forms_rejected_or_not_returning_at_stage1_(excluded_from_compositions)", json!(dead_forms.iter().collect::<Vec<_>>()));
    rep.set("alphabet_B", json!(alphabet_b().iter().map(|(n, v)| format!("{n} = {}", show_opt(v))).collect::<Vec<_>>()));
    rep.rule = format!(
        "Exhaustive. Stage 1: every binary operator (23), unary operator (3), every built-in of eval_builtin_function (+ 3 unknown names) with 0..3 arguments, index, slices, member, optional member, if, array/map literals, method call, lambda, literals (timestamp, duration, …), applied to fields a, b, c; plus arithmetic with one literal operand (1, −1, 0, 2, i64::MAX, −i64::MAX, 0.5; either side), index/slice with boundary literal indices, range()/.. /..= over small sizes — each in `.emit(r: EXPR)` and `.where(EXPR)`, for every valuation of the used fields over B (17 values: i64::MIN/MAX, ±1, 0, NaN, ±inf, 1e308, −0.0, \"\", \"é\", [], [[1]], {{}}, null, missing). Stage 2: every composable form, every hole position, over every inner form with fields a, b (other holes = field c), in `.emit(r: EXPR)`, valuations over {}. Each expression is parsed by the real parser, loaded into a fresh Engine in a child process and driven with one event per valuation. Non-trivial = the evaluation yields a value / accepts the event, or fails.",
        if thorough { "all of B" } else { "the reduced alphabet {1, −1, \"é\", [[1]], missing, NaN, i64::MAX, i64::MIN}" }
    );
    rep.assume("range sizes are excluded by the property: operands of range(), .. and ..= are literals with |n| ≤ 8 or fields over a small alphabet (|n| ≤ 8, non-numeric values, NaN)");
    rep.assume("user-defined functions (fn declarations with statements) are not part of the grammar; `??` and block expressions are rejected by the parser and only counted");
    rep.assume("a form that does not return at stage 1 (abort / hang) is a finding and is not composed further at stage 2 (nor is a form the parser rejects); after an abort the remaining valuations of that expression are not run");
    rep.assume("panic signature = form of the innermost sub-expression that panics by itself (found by evaluating sub-expressions with the real engine) + the extreme classes among its operand values; abort signature = outermost form (and inner form at stage 2)");
    rep.finish()
}
