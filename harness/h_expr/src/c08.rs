//! C08 — `<`, `<=`, `>`, `>=` agree with the mathematical order of the operands for every
//! int/float mix, in every evaluation context.
//!
//! Space: operand alphabet V (ints and floats, |int| ≤ 2^53), all ordered pairs × 4 operators ×
//! 10 contexts (stream filter field/field, field/literal, literal/field; emitted expression
//! field/field, field/literal; `.having` after an aggregate; `.pattern` lambda; SASE step filter
//! against a literal, against another field, against a captured event's field).
//! Oracle: exact comparison of the two operand values (reference below, < 40 lines).

use crate::common::*;
use mc::{Acc, Args, Report};
use serde_json::json;
use std::cmp::Ordering;
use varpulis_core::Value;

#[derive(Clone, Copy, Debug, PartialEq)]
pub enum Num {
    I(i64),
    F(f64),
}

impl Num {
    fn value(self) -> Value {
        match self {
            Num::I(n) => Value::Int(n),
            Num::F(f) => Value::Float(f),
        }
    }
    fn literal(self) -> String {
        match self {
            Num::I(n) => n.to_string(),
            Num::F(f) if f.fract() == 0.0 => format!("{f:.1}"),
            Num::F(f) => format!("{f:?}"),
        }
    }
    fn kind(self) -> &'static str {
        match self {
            Num::I(_) => "int",
            Num::F(_) => "float",
        }
    }
}

// ---- reference: exact order of an i64 and a finite f64 -------------------------------------

/// Exact comparison of integer `i` with finite float `f`.
fn cmp_int_float(i: i64, f: f64) -> Ordering {
    assert!(f.is_finite());
    if f >= 9.3e18 {
        return Ordering::Less;
    }
    if f <= -9.3e18 {
        return Ordering::Greater;
    }
    let fl = f.floor(); // exactly representable, |fl| < 2^63.1
    let fi = fl as i64; // exact
    match i.cmp(&fi) {
        Ordering::Equal if f > fl => Ordering::Less, // i = floor(f) < f
        o => o,
    }
}

fn ref_cmp(a: Num, b: Num) -> Ordering {
    match (a, b) {
        (Num::I(x), Num::I(y)) => x.cmp(&y),
        (Num::F(x), Num::F(y)) => x.partial_cmp(&y).expect("finite floats"), // -0.0 == 0.0
        (Num::I(x), Num::F(y)) => cmp_int_float(x, y),
        (Num::F(x), Num::I(y)) => cmp_int_float(y, x).reverse(),
    }
}

fn ref_holds(op: &str, a: Num, b: Num) -> bool {
    let o = ref_cmp(a, b);
    match op {
        "lt" => o == Ordering::Less,
        "le" => o != Ordering::Greater,
        "gt" => o == Ordering::Greater,
        "ge" => o != Ordering::Less,
        _ => unreachable!(),
    }
}

fn self_test() {
    use Num::*;
    assert_eq!(ref_cmp(I(31), F(31.5)), Ordering::Less);
    assert_eq!(ref_cmp(F(31.5), I(30)), Ordering::Greater);
    assert_eq!(ref_cmp(I(-1), F(-1.5)), Ordering::Greater);
    assert_eq!(ref_cmp(I(-2), F(-1.5)), Ordering::Less);
    assert_eq!(ref_cmp(I(0), F(-0.0)), Ordering::Equal);
    assert_eq!(ref_cmp(F(-0.0), F(0.0)), Ordering::Equal);
    assert_eq!(ref_cmp(I(2), F(2.0)), Ordering::Equal);
    assert_eq!(ref_cmp(I(9007199254740991), F(9007199254740992.0)), Ordering::Less);
    assert_eq!(ref_cmp(I(9007199254740992), F(9007199254740992.0)), Ordering::Equal);
    assert_eq!(ref_cmp(F(9007199254740991.0), I(9007199254740992)), Ordering::Less);
    assert_eq!(ref_cmp(I(1000000000000001), F(1000000000000000.5)), Ordering::Greater);
    assert!(ref_holds("ge", F(31.5), I(30)) && !ref_holds("le", F(31.5), I(30)));
    assert!(ref_holds("le", I(2), F(2.0)) && ref_holds("ge", I(2), F(2.0)) && !ref_holds("lt", I(2), F(2.0)));
    assert_eq!(Num::F(-0.0).literal(), "-0.0");
    assert_eq!(Num::F(9007199254740992.0).literal(), "9007199254740992.0");
    assert_eq!(Num::F(1000000000000000.5).literal(), "1000000000000000.5");
}

// ---- the space --------------------------------------------------------------------------------

const P53: i64 = 9007199254740992;

fn alphabet(thorough: bool) -> Vec<Num> {
    use Num::*;
    // simplest first: the smallest failing pair is kept per signature
    let mut v = vec![I(1), I(2), I(0), I(30), I(31), I(-1), I(-3), F(0.5), F(1.0), F(2.0), F(30.0), F(31.5), F(-1.5), F(0.0), F(-0.0), I(P53 - 1), I(P53), F((P53 - 1) as f64), F(P53 as f64)];
    if thorough {
        v.extend([I(3), I(-30), I(-31), I(1000000000000000), I(1000000000000001), I(-(P53 - 1)), I(-P53), F(1.5), F(2.5), F(-0.5), F(-1.0), F(-30.0), F(-31.5), F(0.1), F(1000000000000000.5), F(-((P53 - 1) as f64)), F(-(P53 as f64))]);
    }
    v
}

const OPS: [(&str, &str); 4] = [("lt", "<"), ("le", "<="), ("gt", ">"), ("ge", ">=")];

#[derive(Clone, Copy, Debug, PartialEq)]
enum Ctx {
    WhereFF,
    WhereFL,
    WhereLF,
    EmitFF,
    EmitFL,
    Having,
    Pattern,
    StepLit,
    StepFF,
    StepRef,
}
const CTXS: [Ctx; 10] = [Ctx::WhereFF, Ctx::WhereFL, Ctx::WhereLF, Ctx::EmitFF, Ctx::EmitFL, Ctx::Having, Ctx::Pattern, Ctx::StepLit, Ctx::StepFF, Ctx::StepRef];

impl Ctx {
    fn name(self) -> &'static str {
        match self {
            Ctx::WhereFF => "where_field_field",
            Ctx::WhereFL => "where_field_literal",
            Ctx::WhereLF => "where_literal_field",
            Ctx::EmitFF => "emit_field_field",
            Ctx::EmitFL => "emit_field_literal",
            Ctx::Having => "having",
            Ctx::Pattern => "pattern_lambda",
            Ctx::StepLit => "step_field_literal",
            Ctx::StepFF => "step_field_field",
            Ctx::StepRef => "step_field_captured",
        }
    }
    /// which comparison routine of /repo the context reaches (an attribute of the context, used as
    /// the signature component so that one defective routine gives one scope per operator)
    fn component(self, b: Num) -> &'static str {
        match self {
            Ctx::WhereFF | Ctx::WhereFL | Ctx::WhereLF | Ctx::EmitFF | Ctx::EmitFL | Ctx::Having | Ctx::StepFF => "stream_expr",
            Ctx::Pattern => "pattern_lambda",
            // a step filter is compiled to a constant comparison only for a plain literal; a negated
            // literal (`-3`, `-1.5`, `-0.0`) is a unary expression there (step filters are not
            // constant-folded) and goes through the stream expression evaluator (compiler.rs
            // expr_to_sase_predicate / expr_to_value)
            Ctx::StepLit if b.literal().starts_with('-') => "stream_expr",
            Ctx::StepLit | Ctx::StepRef => "sase_compare",
        }
    }
    fn lit_side(self) -> Option<bool> {
        // Some(true): right operand is a literal; Some(false): left operand is a literal
        match self {
            Ctx::WhereFL | Ctx::EmitFL | Ctx::StepLit => Some(true),
            Ctx::WhereLF => Some(false),
            _ => None,
        }
    }
    fn emits_value(self) -> bool {
        matches!(self, Ctx::EmitFF | Ctx::EmitFL)
    }
    fn source(self, op: &str, a: Num, b: Num) -> String {
        let (la, lb) = (a.literal(), b.literal());
        match self {
            Ctx::WhereFF => format!("stream S = E\n    .where(x {op} y)\n    .emit(ok: 1)\n"),
            Ctx::WhereFL => format!("stream S = E\n    .where(x {op} {lb})\n    .emit(ok: 1)\n"),
            Ctx::WhereLF => format!("stream S = E\n    .where({la} {op} y)\n    .emit(ok: 1)\n"),
            Ctx::EmitFF => format!("stream S = E\n    .emit(r: x {op} y)\n"),
            Ctx::EmitFL => format!("stream S = E\n    .emit(r: x {op} {lb})\n"),
            Ctx::Having => format!("stream S = E\n    .window(1)\n    .aggregate(p: last(x), q: last(y))\n    .having(p {op} q)\n    .emit(ok: 1)\n"),
            Ctx::Pattern => format!("stream S = E\n    .pattern(p: events => events.first().x {op} events.first().y)\n    .emit(ok: 1)\n"),
            Ctx::StepLit => format!("stream S = Z as z -> E where x {op} {lb} as e\n    .emit(ok: 1)\n"),
            Ctx::StepFF => format!("stream S = Z as z -> E where x {op} y as e\n    .emit(ok: 1)\n"),
            Ctx::StepRef => format!("stream S = Z as z -> E where x {op} z.v as e\n    .emit(ok: 1)\n"),
        }
    }
    fn events(self, a: Num, b: Num) -> Vec<varpulis_runtime::Event> {
        let (va, vb) = (Some(a.value()), Some(b.value()));
        match self {
            Ctx::WhereFF | Ctx::EmitFF | Ctx::Having | Ctx::Pattern => vec![event("E", 0, &[("x", va), ("y", vb)])],
            Ctx::WhereFL | Ctx::EmitFL => vec![event("E", 0, &[("x", va)])],
            Ctx::WhereLF => vec![event("E", 0, &[("y", vb)])],
            Ctx::StepLit => vec![event("Z", 0, &[]), event("E", 1, &[("x", va)])],
            Ctx::StepFF => vec![event("Z", 0, &[]), event("E", 1, &[("x", va), ("y", vb)])],
            Ctx::StepRef => vec![event("Z", 0, &[("v", vb)]), event("E", 1, &[("x", va)])],
        }
    }
}

struct Item {
    ctx: Ctx,
    op: usize,
    /// index of the operand that is a literal in the program text (contexts with a literal side)
    fixed: Option<usize>,
}

/// Run one (context, operator, a, b) case on a parsed program; returns the observation string.
fn check_case(rt: &tokio::runtime::Runtime, ctx: Ctx, op: usize, a: Num, b: Num, program: &varpulis_core::ast::Program, size: usize, acc: &mut Acc) {
    let (opn, ops) = OPS[op];
    let expected = ref_holds(opn, a, b);
    acc.evaluations += 1;
    let mixed = a.kind() != b.kind();
    if mixed {
        acc.nontrivial += 1;
    }
    let res = mc::catch(|| run_engine(rt, program, ctx.events(a, b)));
    let (ok, observed) = match &res {
        Err(p) => (false, format!("panic: {}", first_line(p))),
        Ok(Err(e)) => (false, format!("engine error: {}", first_line(e))),
        Ok(Ok(outs)) => {
            if ctx.emits_value() {
                let r = outs.first().and_then(|o| field(o, "r").cloned());
                (outs.len() == 1 && matches!(r, Some(Value::Bool(x)) if x == expected), format!("r = {}", show_opt(&r)))
            } else {
                let accepted = !outs.is_empty();
                (accepted == expected, if accepted { "event accepted".to_string() } else { "event rejected".to_string() })
            }
        }
    };
    acc.outcome(&(ctx.name(), opn, expected, &observed));
    if !ok {
        let sig = format!("C08:{}:{}_{}", ctx.component(b), opn, if mixed { "mixed" } else { "same_type" });
        let desc = format!(
            "{}: `{} {} {}` ({} vs {}) is mathematically {}, but {} — program: {}",
            ctx.name(),
            a.literal(),
            ops,
            b.literal(),
            a.kind(),
            b.kind(),
            expected,
            observed,
            ctx.source(ops, a, b).trim_end().replace('\n', " ⏎ ")
        );
        acc.count(&format!("failing_cases_{}", ctx.name()), 1);
        acc.viol.add(sig, desc, json!({"ctx": ctx.name(), "op": opn, "a": enc(&a.value()), "b": enc(&b.value())}), size);
    }
}

fn num_of(v: &Option<Value>) -> Num {
    match v {
        Some(Value::Int(n)) => Num::I(*n),
        Some(Value::Float(f)) => Num::F(*f),
        other => mc::machinery_error(&format!("replay: operand {other:?} is not numeric")),
    }
}

pub fn run(args: &Args) -> ! {
    self_test();
    mc::quiet_panics();
    let mut rep = Report::new(args, "exploration");
    let thorough = args.tier == mc::Tier::Thorough;
    let v = alphabet(thorough);

    if let Some(path) = &args.replay {
        let case = mc::load_replay(path);
        let ctx = CTXS.iter().copied().find(|c| c.name() == case["ctx"].as_str().unwrap_or("")).unwrap_or_else(|| mc::machinery_error("replay: unknown ctx"));
        let op = OPS.iter().position(|(n, _)| *n == case["op"].as_str().unwrap_or("")).unwrap_or_else(|| mc::machinery_error("replay: unknown op"));
        let (a, b) = (num_of(&dec_opt(&case["a"])), num_of(&dec_opt(&case["b"])));
        let src = ctx.source(OPS[op].1, a, b);
        let program = varpulis_parser::parse(&src).unwrap_or_else(|e| mc::machinery_error(&format!("replay: program does not parse: {e}")));
        let mut acc = Acc::default();
        check_case(&runtime(), ctx, op, a, b, &program, 0, &mut acc);
        rep.absorb(acc);
        rep.finish();
    }

    // work items: one per program text
    let mut items = Vec::new();
    for ctx in CTXS {
        for op in 0..OPS.len() {
            match ctx.lit_side() {
                None => items.push(Item { ctx, op, fixed: None }),
                Some(_) => {
                    for i in 0..v.len() {
                        items.push(Item { ctx, op, fixed: Some(i) });
                    }
                }
            }
        }
    }
    let n = v.len();
    let (acc, _) = mc::par_items(&items, args.threads, |it, acc| {
        let rt = runtime();
        let ci = CTXS.iter().position(|c| *c == it.ctx).unwrap();
        let probe = it.fixed.map(|i| v[i]).unwrap_or(v[0]);
        let src = it.ctx.source(OPS[it.op].1, probe, probe);
        let program = match varpulis_parser::parse(&src) {
            Ok(p) => p,
            Err(e) => mc::machinery_error(&format!("C08 program does not parse: {e}\n{src}")),
        };
        for i in 0..n {
            for j in 0..n {
                match (it.ctx.lit_side(), it.fixed) {
                    (Some(true), Some(f)) if j != f => continue,
                    (Some(false), Some(f)) if i != f => continue,
                    _ => {}
                }
                check_case(&rt, it.ctx, it.op, v[i], v[j], &program, ci * 10_000 + i * 100 + j, acc);
            }
        }
        acc.count("programs_parsed", 1);
        true
    });
    rep.absorb(acc);
    rep.set("operand_alphabet", json!(v.iter().map(|x| format!("{}:{}", x.kind(), x.literal())).collect::<Vec<_>>()));
    rep.set("contexts", json!(CTXS.iter().map(|c| c.name()).collect::<Vec<_>>()));
    rep.sample(json!({"ctx":"where_field_literal","program":Ctx::WhereFL.source(">=", Num::F(31.5), Num::I(30)),"event":"E{x: 31.5}","expected":"accepted"}));
    rep.sample(json!({"ctx":"step_field_captured","program":Ctx::StepRef.source("<=", Num::I(2), Num::F(2.0)),"events":"Z{v: 2.0}, E{x: 2}","expected":"match"}));
    rep.rule = format!(
        "Exhaustive: all {n}×{n} ordered operand pairs from the alphabet (ints and floats incl. ±0.0, fractional, negative, 2^53−1 and 2^53 as int and as float) × 4 operators × 10 contexts; every program is VPL source parsed by the real parser and run on a fresh Engine; filter contexts observe accept/reject, emit contexts observe the emitted Bool. Oracle: exact comparison of the operand values. Non-trivial = mixed int/float pair."
    );
    rep.assume("|int| ≤ 2^53 (above it the `as f64` cast rounds; not decided here); NaN and ±inf are not in the alphabet (they have no mathematical order)");
    rep.assume("a filter context is judged by acceptance only: 'no value' and 'false' both reject (the property speaks about the comparison's truth, not about its representation)");
    rep.assume("signature component = the comparison routine a context reaches (stream_expr: .where/.emit/.having/step filter with two fields; pattern_lambda: .pattern; sase_compare: step filter against a literal or a captured field); per-context failing counts are in the evidence");
    rep.finish()
}
