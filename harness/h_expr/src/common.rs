//! Helpers shared by the four checks: event construction with fixed timestamps, engine driver,
//! strict value comparison, replayable value encoding.

use serde_json::{json, Value as J};
use std::sync::Arc;
use varpulis_core::ast::{Expr, Program, Stmt, StreamOp};
use varpulis_core::Value;
use varpulis_runtime::{Engine, Event};

pub const T0_MS: i64 = 1_700_000_000_000;

pub type FxMap = indexmap::IndexMap<Arc<str>, Value, rustc_hash::FxBuildHasher>;

/// Event of type `ty` at `T0 + k s` with the given fields (a `None` field is left out = missing).
pub fn event(ty: &str, k: i64, fields: &[(&str, Option<Value>)]) -> Event {
    let ts = chrono::DateTime::from_timestamp_millis(T0_MS + k * 1000).unwrap();
    let mut e = Event::new_at(ty.to_string(), ts);
    for (name, v) in fields {
        if let Some(v) = v {
            e.data.insert((*name).into(), v.clone());
        }
    }
    e
}

pub fn runtime() -> tokio::runtime::Runtime {
    tokio::runtime::Builder::new_current_thread().build().unwrap_or_else(|e| mc::machinery_error(&format!("tokio runtime: {e}")))
}

/// One output event projected to (type, data).
pub type Out = (String, Vec<(String, Value)>);

/// Fresh engine, load, process the events in order, drain the output channel.
pub fn run_engine(rt: &tokio::runtime::Runtime, program: &Program, events: Vec<Event>) -> Result<Vec<Out>, String> {
    rt.block_on(async {
        let (tx, mut rx) = tokio::sync::mpsc::channel(1024);
        let mut eng = Engine::new(tx);
        eng.load(program).map_err(|e| format!("load: {e}"))?;
        for ev in events {
            eng.process(ev).await.map_err(|e| format!("process: {e}"))?;
        }
        let mut out = Vec::new();
        while let Ok(e) = rx.try_recv() {
            out.push((e.event_type.to_string(), e.data.iter().map(|(k, v)| (k.to_string(), v.clone())).collect()));
        }
        Ok(out)
    })
}

pub fn field<'a>(out: &'a Out, name: &str) -> Option<&'a Value> {
    out.1.iter().find(|(k, _)| k == name).map(|(_, v)| v)
}

/// Same variant and same payload (floats by bit pattern, any NaN equals any NaN; maps by key).
pub fn identical(a: &Value, b: &Value) -> bool {
    match (a, b) {
        (Value::Null, Value::Null) => true,
        (Value::Bool(x), Value::Bool(y)) => x == y,
        (Value::Int(x), Value::Int(y)) => x == y,
        (Value::Float(x), Value::Float(y)) => (x.is_nan() && y.is_nan()) || x.to_bits() == y.to_bits(),
        (Value::Str(x), Value::Str(y)) => x == y,
        (Value::Timestamp(x), Value::Timestamp(y)) => x == y,
        (Value::Duration(x), Value::Duration(y)) => x == y,
        (Value::Array(x), Value::Array(y)) => x.len() == y.len() && x.iter().zip(y.iter()).all(|(p, q)| identical(p, q)),
        (Value::Map(x), Value::Map(y)) => x.len() == y.len() && x.iter().all(|(k, v)| y.get(&**k).is_some_and(|w| identical(v, w))),
        _ => false,
    }
}

pub fn identical_opt(a: &Option<Value>, b: &Option<Value>) -> bool {
    match (a, b) {
        (None, None) => true,
        (Some(x), Some(y)) => identical(x, y),
        _ => false,
    }
}

/// Readable rendering that keeps the variant and the float sign visible.
pub fn show(v: &Value) -> String {
    match v {
        Value::Null => "null".into(),
        Value::Bool(b) => format!("Bool({b})"),
        Value::Int(n) => format!("Int({n})"),
        Value::Float(f) => format!("Float({f:?})"),
        Value::Str(s) => format!("Str({:?})", &**s),
        Value::Timestamp(t) => format!("Timestamp({t})"),
        Value::Duration(d) => format!("Duration({d})"),
        Value::Array(a) => format!("[{}]", a.iter().map(show).collect::<Vec<_>>().join(", ")),
        Value::Map(m) => format!("{{{}}}", m.iter().map(|(k, v)| format!("{k}: {}", show(v))).collect::<Vec<_>>().join(", ")),
    }
}

pub fn show_opt(v: &Option<Value>) -> String {
    match v {
        None => "no value".into(),
        Some(v) => show(v),
    }
}

/// Replayable encoding (ints and floats as strings so that nothing is rounded).
pub fn enc(v: &Value) -> J {
    match v {
        Value::Null => json!({"t":"null"}),
        Value::Bool(b) => json!({"t":"bool","v":b}),
        Value::Int(n) => json!({"t":"int","v":n.to_string()}),
        Value::Float(f) => json!({"t":"float","v":format!("{f:?}")}),
        Value::Str(s) => json!({"t":"str","v":&**s}),
        Value::Timestamp(t) => json!({"t":"timestamp","v":t.to_string()}),
        Value::Duration(d) => json!({"t":"duration","v":d.to_string()}),
        Value::Array(a) => json!({"t":"array","v":a.iter().map(enc).collect::<Vec<_>>()}),
        Value::Map(m) => json!({"t":"map","v":m.iter().map(|(k, v)| json!([&**k, enc(v)])).collect::<Vec<_>>()}),
    }
}

pub fn enc_opt(v: &Option<Value>) -> J {
    match v {
        None => json!({"t":"missing"}),
        Some(v) => enc(v),
    }
}

pub fn dec_opt(j: &J) -> Option<Value> {
    let t = j["t"].as_str().unwrap_or_else(|| mc::machinery_error(&format!("replay: bad value {j}")));
    let s = || j["v"].as_str().unwrap_or_else(|| mc::machinery_error(&format!("replay: bad value {j}")));
    Some(match t {
        "missing" => return None,
        "null" => Value::Null,
        "bool" => Value::Bool(j["v"].as_bool().unwrap_or(false)),
        "int" => Value::Int(s().parse().unwrap_or_else(|_| mc::machinery_error("replay: bad int"))),
        "float" => Value::Float(s().parse().unwrap_or_else(|_| mc::machinery_error("replay: bad float"))),
        "str" => Value::Str(s().into()),
        "timestamp" => Value::Timestamp(s().parse().unwrap_or(0)),
        "duration" => Value::Duration(s().parse().unwrap_or(0)),
        "array" => Value::array(j["v"].as_array().map(|a| a.iter().filter_map(dec_opt).collect()).unwrap_or_default()),
        "map" => {
            let mut m = FxMap::default();
            for e in j["v"].as_array().cloned().unwrap_or_default() {
                if let Some(v) = dec_opt(&e[1]) {
                    m.insert(e[0].as_str().unwrap_or("").into(), v);
                }
            }
            Value::map(m)
        }
        other => mc::machinery_error(&format!("replay: unknown value tag {other}")),
    })
}

/// The expressions of the `.emit(name: expr, …)` op of the first stream of a parsed program.
pub fn emit_exprs(p: &Program) -> Vec<(String, Expr)> {
    for s in &p.statements {
        if let Stmt::StreamDecl { ops, .. } = &s.node {
            for op in ops {
                if let StreamOp::Emit { fields, .. } = op {
                    return fields.iter().map(|a| (a.name.clone(), a.value.clone())).collect();
                }
            }
        }
    }
    Vec::new()
}

pub fn first_line(s: &str) -> String {
    s.lines().next().unwrap_or("").chars().take(160).collect()
}

/// Wall cap per tier; `VERIF_CAP_S` overrides it (for measuring on an overloaded machine).
pub fn wall_cap(tier: mc::Tier, quick: u64, thorough: u64) -> std::time::Duration {
    let s = std::env::var("VERIF_CAP_S").ok().and_then(|s| s.parse().ok()).unwrap_or(tier.pick(quick, thorough));
    std::time::Duration::from_secs(s)
}
