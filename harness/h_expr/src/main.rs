//! h_expr — expression-level properties (DESIGN.md §3 "Expressions" and C40).
//!
//! * C08 numeric comparisons agree with the mathematical order for every int/float mix, in every
//!   evaluation context (`c08.rs`)
//! * C10 constant folding never changes what an expression computes (`c10.rs`)
//! * C11 evaluating any expression never panics (child-process shards, `c11.rs`)
//! * C40 value equality is an equivalence consistent with hashing (`c40.rs`)

mod c08;
mod c10;
mod c11;
mod c40;
mod common;

fn main() {
    let args = mc::parse_args();
    // each module installs mc::quiet_panics() after its self-test, so a failing self-test is loud
    match args.prop.as_str() {
        "C08" => c08::run(&args),
        "C10" => c10::run(&args),
        "C11" => c11::run(&args),
        "C40" => c40::run(&args),
        other => mc::machinery_error(&format!("h_expr serves C08, C10, C11, C40 (got {other})")),
    }
}
