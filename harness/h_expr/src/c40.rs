//! C40 — `Value` equality is reflexive, symmetric, transitive and consistent with `Hash`.
//!
//! Space: every value of bounded depth over every variant (special floats, maps in every insertion
//! order); all ordered pairs (symmetry, eq ⇒ same hash under SipHash and FxHash) and all triples
//! that contain an equal pair (transitivity). The laws themselves are the oracle.

use crate::common::*;
use mc::{Acc, Args, Report};
use serde_json::json;
use std::hash::{Hash, Hasher};
use varpulis_core::Value;

fn atoms() -> Vec<Value> {
    vec![Value::Null, Value::Bool(true), Value::Int(0), Value::Int(1), Value::Float(0.0), Value::Float(-0.0), Value::Float(f64::NAN), Value::Float(f64::from_bits(0xfff8_0000_0000_0001)), Value::Float(1.0), Value::Str("".into()), Value::Str("a".into()), Value::Timestamp(0), Value::Duration(0)]
}

fn map_of(entries: &[(&str, &Value)]) -> Value {
    let mut m = FxMap::default();
    for (k, v) in entries {
        m.insert((*k).into(), (*v).clone());
    }
    Value::map(m)
}

/// arrays of ≤ 2 and maps of ≤ 2 entries (keys a, b; both insertion orders) over `elems`
fn containers(elems: &[Value], out: &mut Vec<Value>) {
    out.push(Value::array(vec![]));
    out.push(map_of(&[]));
    for x in elems {
        out.push(Value::array(vec![x.clone()]));
        out.push(map_of(&[("a", x)]));
        out.push(map_of(&[("b", x)]));
    }
    for x in elems {
        for y in elems {
            out.push(Value::array(vec![x.clone(), y.clone()]));
            out.push(map_of(&[("a", x), ("b", y)]));
            out.push(map_of(&[("b", y), ("a", x)]));
        }
    }
}

fn values(thorough: bool) -> Vec<Value> {
    let at = atoms();
    let mut v = at.clone();
    containers(&at, &mut v); // depth 2
    if thorough {
        // maps of 3 entries in all 6 insertion orders
        let small = [Value::Int(0), Value::Float(1.0), Value::Float(f64::NAN)];
        let perms: [[usize; 3]; 6] = [[0, 1, 2], [0, 2, 1], [1, 0, 2], [1, 2, 0], [2, 0, 1], [2, 1, 0]];
        let keys = ["a", "b", "c"];
        for x in &small {
            for y in &small {
                for z in &small {
                    let vals = [x, y, z];
                    for p in perms {
                        v.push(map_of(&[(keys[p[0]], vals[p[0]]), (keys[p[1]], vals[p[1]]), (keys[p[2]], vals[p[2]])]));
                    }
                }
            }
        }
        // depth 3: containers of depth-2 containers over a reduced atom set
        let red = [Value::Int(1), Value::Float(0.0), Value::Float(-0.0), Value::Float(f64::NAN), Value::Float(f64::from_bits(0xfff8_0000_0000_0001))];
        let mut inner = Vec::new();
        for x in &red {
            for y in &red {
                inner.push(Value::array(vec![x.clone(), y.clone()]));
                inner.push(map_of(&[("a", x), ("b", y)]));
                inner.push(map_of(&[("b", y), ("a", x)]));
            }
        }
        containers(&inner, &mut v);
    }
    v
}

fn h_sip(v: &Value) -> u64 {
    let mut h = std::collections::hash_map::DefaultHasher::new();
    v.hash(&mut h);
    h.finish()
}
fn h_fx(v: &Value) -> u64 {
    let mut h = rustc_hash::FxHasher::default();
    v.hash(&mut h);
    h.finish()
}

fn variant(v: &Value) -> &'static str {
    match v {
        Value::Null => "null",
        Value::Bool(_) => "bool",
        Value::Int(_) => "int",
        Value::Float(_) => "float",
        Value::Str(_) => "str",
        Value::Timestamp(_) => "timestamp",
        Value::Duration(_) => "duration",
        Value::Array(_) => "array",
        Value::Map(_) => "map",
    }
}

fn nodes(v: &Value) -> usize {
    match v {
        Value::Array(a) => 1 + a.iter().map(nodes).sum::<usize>(),
        Value::Map(m) => 1 + m.values().map(nodes).sum::<usize>(),
        _ => 1,
    }
}

/// Shape of a pair, from the construction of the two values only: the set of primitive
/// differences between them (wherever they are nested). A pair that differs in one primitive way
/// only exists in the space too, so every primitive cause has a signature of its own.
fn shape(a: &Value, b: &Value) -> String {
    let mut kinds = std::collections::BTreeSet::new();
    diff_kinds(a, b, &mut kinds);
    if kinds.is_empty() {
        return format!("same_{}", variant(a));
    }
    kinds.into_iter().collect::<Vec<_>>().join("+")
}

fn diff_kinds(a: &Value, b: &Value, out: &mut std::collections::BTreeSet<String>) {
    match (a, b) {
        (Value::Float(x), Value::Float(y)) => {
            if x.to_bits() == y.to_bits() {
            } else if x.is_nan() && y.is_nan() {
                out.insert("float_nan_payload".into());
            } else if *x == 0.0 && *y == 0.0 {
                out.insert("float_signed_zero".into());
            } else {
                out.insert("float_payload".into());
            }
        }
        (Value::Array(x), Value::Array(y)) if x.len() == y.len() => {
            for (p, q) in x.iter().zip(y.iter()) {
                diff_kinds(p, q, out);
            }
        }
        (Value::Map(x), Value::Map(y)) if x.len() == y.len() && x.keys().all(|k| y.contains_key(&**k)) => {
            if x.keys().zip(y.keys()).any(|(k, l)| k != l) {
                out.insert("map_insertion_order".into());
            }
            for (k, p) in x.iter() {
                diff_kinds(p, &y[&**k], out);
            }
        }
        (Value::Array(_), Value::Array(_)) => {
            out.insert("array_length".into());
        }
        (Value::Map(_), Value::Map(_)) => {
            out.insert("map_keys".into());
        }
        _ if variant(a) != variant(b) => {
            out.insert(format!("{}_vs_{}", variant(a), variant(b)));
        }
        _ => {
            if !identical(a, b) {
                out.insert(format!("{}_payload", variant(a)));
            }
        }
    }
}

fn check_pair(a: &Value, b: &Value, tie: usize, acc: &mut Acc) -> bool {
    acc.evaluations += 1;
    let ab = a == b;
    let ba = b == a;
    let size = (nodes(a) + nodes(b)) * 100_000_000 + tie; // smallest values first, then enumeration order
    let case = || json!({"law":"pair","a":enc(a),"b":enc(b)});
    if ab != ba {
        acc.viol.add(format!("C40:symmetric:{}", shape(a, b)), format!("{} == {} is {ab} but the converse is {ba}", show(a), show(b)), case(), size);
    }
    if ab {
        let (sa, sb, fa, fb) = (h_sip(a), h_sip(b), h_fx(a), h_fx(b));
        acc.outcome(&(true, sa == sb, fa == fb));
        if sa != sb || fa != fb {
            let which = match (sa != sb, fa != fb) {
                (true, true) => "SipHash (std DefaultHasher) and FxHash",
                (true, false) => "SipHash (std DefaultHasher)",
                _ => "FxHash",
            };
            acc.viol.add(format!("C40:hash:{}", shape(a, b)), format!("{} == {} but their hashes differ under {which} ({sa:#x} vs {sb:#x})", show(a), show(b)), case(), size);
        }
    } else {
        acc.outcome(&(false, false, false));
    }
    ab
}

fn check_refl(a: &Value, acc: &mut Acc) {
    acc.evaluations += 1;
    let c = a.clone();
    #[allow(clippy::eq_op)]
    if !(a == a) || *a != c {
        acc.viol.add(format!("C40:reflexive:{}", variant(a)), format!("{} is not equal to itself", show(a)), json!({"law":"refl","a":enc(a)}), nodes(a));
    }
    if h_sip(a) != h_sip(&c) || h_fx(a) != h_fx(&c) {
        acc.viol.add(format!("C40:hash:clone_of_{}", variant(a)), format!("{} and its clone hash differently", show(a)), json!({"law":"refl","a":enc(a)}), nodes(a));
    }
}

fn check_triple(a: &Value, b: &Value, c: &Value, acc: &mut Acc) {
    // precondition established by the caller: a == b
    acc.evaluations += 1;
    if b == c && a != c {
        acc.viol.add(
            format!("C40:transitive:{}", shape(a, c)),
            format!("{} == {} and {} == {} but {} != {}", show(a), show(b), show(b), show(c), show(a), show(c)),
            json!({"law":"triple","a":enc(a),"b":enc(b),"c":enc(c)}),
            nodes(a) + nodes(b) + nodes(c),
        );
    }
}

fn self_test() {
    // the shape classifier and the value builder are harness code: check them on hand cases
    let (one, two) = (Value::Int(1), Value::Int(2));
    let m1 = map_of(&[("a", &one), ("b", &two)]);
    let m2 = map_of(&[("b", &two), ("a", &one)]);
    assert_eq!(shape(&m1, &m2), "map_insertion_order");
    assert_eq!(shape(&Value::Float(0.0), &Value::Float(-0.0)), "float_signed_zero");
    assert_eq!(shape(&Value::array(vec![m1.clone(), Value::Float(0.0)]), &Value::array(vec![m2.clone(), Value::Float(-0.0)])), "float_signed_zero+map_insertion_order");
    assert_eq!(shape(&m1, &m1), "same_map");
    assert_eq!(shape(&one, &Value::Float(1.0)), "int_vs_float");
    assert_eq!(nodes(&Value::array(vec![m1.clone(), one.clone()])), 5);
    assert_eq!(values(false).len(), 13 + 2 + 3 * 13 + 3 * 169);
    let back = dec_opt(&enc(&m2)).unwrap();
    if let (Value::Map(x), Value::Map(y)) = (&back, &m2) {
        assert!(x.keys().zip(y.keys()).all(|(k, l)| k == l), "replay encoding keeps the insertion order");
    }
}

pub fn run(args: &Args) -> ! {
    self_test();
    mc::quiet_panics();
    let mut rep = Report::new(args, "exploration");
    if let Some(path) = &args.replay {
        let case = mc::load_replay(path);
        let get = |k: &str| dec_opt(&case[k]).unwrap_or_else(|| mc::machinery_error("replay: missing value"));
        let mut acc = Acc::default();
        match case["law"].as_str().unwrap_or("") {
            "refl" => check_refl(&get("a"), &mut acc),
            "pair" => {
                check_pair(&get("a"), &get("b"), 0, &mut acc);
            }
            "triple" => {
                let (a, b, c) = (get("a"), get("b"), get("c"));
                if check_pair(&a, &b, 0, &mut acc) {
                    check_triple(&a, &b, &c, &mut acc);
                }
            }
            other => mc::machinery_error(&format!("replay: unknown law {other}")),
        }
        rep.absorb(acc);
        rep.finish();
    }
    let thorough = args.tier == mc::Tier::Thorough;
    let vals = values(thorough);
    let n = vals.len();
    let deadline = mc::Deadline::after(wall_cap(args.tier, 30, 1000));
    let (acc, done) = mc::par_indices(n as u64, args.threads, 4, |i, acc| {
        if deadline.expired() {
            return false;
        }
        let a = &vals[i as usize];
        check_refl(a, acc);
        let mut equal_to_a = Vec::new();
        for (j, b) in vals.iter().enumerate() {
            if check_pair(a, b, i as usize * n + j, acc) {
                if j != i as usize {
                    acc.nontrivial += 1;
                }
                equal_to_a.push(j);
            }
        }
        for &j in &equal_to_a {
            for c in &vals {
                check_triple(a, &vals[j], c, acc);
            }
        }
        acc.count("triples_with_an_equal_pair", (equal_to_a.len() * n) as u64);
        true
    });
    if !done {
        rep.cap_hit("wall cap during the pair/triple sweep");
    }
    rep.absorb(acc);
    rep.set("values", json!(n));
    rep.set("ordered_pairs", json!(n * n));
    rep.sample(json!({"a": show(&vals[n - 1]), "b": show(&vals[n - 2])}));
    rep.sample(json!({"a": show(&vals[5]), "b": show(&vals[4])}));
    rep.rule = format!(
        "Exhaustive: {n} values = 12 atoms (Null, true, 0, 1, 0.0, −0.0, NaN, 1.0, \"\", \"a\", Timestamp 0, Duration 0) + arrays of ≤ 2 atoms + maps of ≤ 2 entries over keys a,b in both insertion orders{}; every value (reflexivity, clone hashes alike), every ordered pair (symmetry; equal ⇒ equal hash under std SipHash and FxHash), every triple (a,b,c) with a == b (transitivity). Non-trivial = equal pair of two different constructions.",
        if thorough { " + maps of 3 entries in all 6 insertion orders + arrays/maps (≤ 2 entries, both orders) of depth-2 arrays/maps over {1, 0.0, −0.0, NaN}" } else { "" }
    );
    rep.assume("hash consistency is checked with the two hashers the code base uses (std DefaultHasher with fixed keys, rustc_hash::FxHasher)");
    rep.finish()
}
