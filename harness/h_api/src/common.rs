//! Shared plumbing for the HTTP harnesses (C22, C28, C44): the real `api_routes` filter tree driven
//! in-process through `warp::test`, one single-threaded tokio runtime per execution.

use serde_json::Value as J;
use std::cell::RefCell;
use std::future::Future;
use varpulis_runtime::tenant::SharedTenantManager;
use warp::hyper::body::HttpBody;
use warp::hyper::Body;
use warp::Filter;

pub const ADMIN: &str = "harness-admin-key";

pub type Routes = warp::filters::BoxedFilter<(warp::reply::Response,)>;

thread_local! {
    /// bodies of `text/event-stream` replies, parked by `capture` (the handler runs on the caller's thread)
    static STREAMS: RefCell<Vec<Body>> = const { RefCell::new(Vec::new()) };
}

/// Outermost adapter (added after the complete real route tree, CORS wrapper included): an SSE reply
/// never ends, so its body is parked for later inspection and the head is returned with an empty
/// body; every other reply passes through untouched.
fn capture<R: warp::Reply>(r: R) -> warp::reply::Response {
    let resp = r.into_response();
    let is_stream = resp
        .headers()
        .get("content-type")
        .map(|v| v.as_bytes().starts_with(b"text/event-stream"))
        .unwrap_or(false);
    if !is_stream {
        return resp;
    }
    let (parts, body) = resp.into_parts();
    STREAMS.with(|s| s.borrow_mut().push(body));
    warp::reply::Response::from_parts(parts, Body::empty())
}

/// The real route tree of the CLI server (`api_routes` contains the tenant admin routes).
pub fn routes(mgr: SharedTenantManager) -> Routes {
    varpulis_cli::api::api_routes(mgr, Some(ADMIN.to_string())).map(capture).boxed()
}

pub struct Resp {
    pub status: u16,
    pub text: String,
    /// parsed body, `Null` when the body is not JSON
    pub json: J,
    /// open server-sent-event stream (logs endpoint)
    pub stream: Option<Body>,
}

impl Resp {
    pub fn ok(&self) -> bool {
        (200..300).contains(&self.status)
    }
}

pub async fn send(routes: &Routes, method: &str, path: &str, headers: &[(&str, &str)], body: Option<&J>) -> Resp {
    STREAMS.with(|s| s.borrow_mut().clear());
    let mut r = warp::test::request().method(method).path(path);
    for (h, v) in headers {
        r = r.header(*h, *v);
    }
    if let Some(b) = body {
        r = r.json(b);
    }
    let resp = r.reply(routes).await;
    let status = resp.status().as_u16();
    let text = String::from_utf8_lossy(resp.body()).to_string();
    let json = serde_json::from_slice(resp.body()).unwrap_or(J::Null);
    let stream = STREAMS.with(|s| s.borrow_mut().pop());
    Resp { status, text, json, stream }
}

/// Everything an open SSE body can deliver right now (no waiting: the stream is polled until it is
/// pending; a bounded number of polls keeps a misbehaving stream from spinning).
pub async fn drain_stream(body: &mut Body) -> String {
    let mut out = String::new();
    for _ in 0..64 {
        match futures::poll!(Box::pin(body.data())) {
            std::task::Poll::Ready(Some(Ok(chunk))) => out.push_str(&String::from_utf8_lossy(&chunk)),
            std::task::Poll::Ready(_) => break,
            std::task::Poll::Pending => break,
        }
    }
    out
}

/// Run one execution on a fresh single-threaded runtime (timers on: the SSE keep-alive needs them;
/// no I/O driver: nothing here touches the network).
pub fn block_on<T>(f: impl Future<Output = T>) -> T {
    let rt = tokio::runtime::Builder::new_current_thread()
        .enable_time()
        .build()
        .unwrap_or_else(|e| mc::machinery_error(&format!("tokio runtime: {e}")));
    rt.block_on(f)
}

pub fn is_uuid(s: &str) -> bool {
    let b = s.as_bytes();
    b.len() == 36
        && b.iter().enumerate().all(|(i, c)| match i {
            8 | 13 | 18 | 23 => *c == b'-',
            _ => c.is_ascii_hexdigit(),
        })
}

/// Wall cap of a tier. `VERIF_WALL_CAP_S` overrides it (tuning aid only: it never selects cases, and a
/// cap that is hit is reported as `exhaustive:false`).
pub fn wall_cap(args: &mc::Args, quick_s: u64, thorough_s: u64) -> mc::Deadline {
    let s = std::env::var("VERIF_WALL_CAP_S").ok().and_then(|v| v.parse().ok()).unwrap_or(args.tier.pick(quick_s, thorough_s));
    mc::Deadline::after(std::time::Duration::from_secs(s))
}
