//! C22 — tenant and pipeline metadata survive restarts exactly as acknowledged (DESIGN.md §3).
//!
//! Drives the real route tree (`api_routes`, which contains `tenant_admin_routes`) through
//! `warp::test` over a `TenantManager` backed by a harness `StateStore` wrapper around the real
//! `MemoryStore` / `FileStore`. The wrapper *unwinds* when the in-flight request attempts its
//! (j+1)-th store write (= crash after j completed writes); the harness catches the unwind, throws
//! the server away and restarts from the inner store (`TenantManager::with_store` + `recover()`).
//!
//! Reference model (boring Rust): the list of acknowledged (HTTP 2xx) operations applied to a
//! `Vec` of tenants with their pipelines. Oracle: after an acknowledged history the recovered
//! tenants (id, name, API key, key lookup), pipelines (id, name, source, status) equal the model;
//! after a crash they equal the model before the in-flight operation, or that model with the single
//! in-flight operation applied.

use crate::common::{routes, send, Resp, Routes, ADMIN};
use futures::FutureExt;
use mc::{Acc, Args, Report};
use serde_json::{json, Value as J};
use std::collections::BTreeMap;
use std::path::{Path, PathBuf};
use std::sync::atomic::{AtomicU64, AtomicUsize, Ordering};
use std::sync::{Arc, Mutex};
use varpulis_runtime::persistence::{Checkpoint, FileStore, MemoryStore, StateStore, StoreError};
use varpulis_runtime::tenant::TenantManager;

const TENANTS: [&str; 2] = ["t1", "t2"];
const PIPES: [&str; 3] = ["p1", "p2", "p3"];
const SOURCES: [&str; 2] = ["stream S = E\n    .emit(x: x)\n", "stream S = E\n    .where(x > 0)\n    .emit(y: x)\n"];
const BAD_SOURCE: &str = "stream S = = E\n";
const STORES: [&str; 2] = ["memory", "file"];

// ------------------------------------------------------------------------------------------------
// crashing store

struct CrashMarker;

struct CrashStore {
    inner: Arc<dyn StateStore>,
    writes: AtomicUsize,
    crash_at: AtomicUsize,
    /// harness self-check only (env VERIF_INJECT_FAULT=lose_reload_snapshot): swallow tenant snapshot
    /// writes, which is what a server that forgets to persist after a reload looks like from the store
    lose_snapshots: std::sync::atomic::AtomicBool,
}
impl CrashStore {
    fn new(inner: Arc<dyn StateStore>) -> Self {
        CrashStore { inner, writes: AtomicUsize::new(0), crash_at: AtomicUsize::new(usize::MAX), lose_snapshots: std::sync::atomic::AtomicBool::new(false) }
    }
    /// from now on: unwind when the (j+1)-th write is attempted
    fn arm(&self, j: Option<usize>) {
        self.writes.store(0, Ordering::SeqCst);
        self.crash_at.store(j.unwrap_or(usize::MAX), Ordering::SeqCst);
    }
    fn tick(&self) {
        let done = self.writes.fetch_add(1, Ordering::SeqCst);
        if done == self.crash_at.load(Ordering::SeqCst) {
            self.writes.fetch_sub(1, Ordering::SeqCst);
            std::panic::panic_any(CrashMarker);
        }
    }
}
impl StateStore for CrashStore {
    fn save_checkpoint(&self, c: &Checkpoint) -> Result<(), StoreError> {
        self.tick();
        self.inner.save_checkpoint(c)
    }
    fn load_latest_checkpoint(&self) -> Result<Option<Checkpoint>, StoreError> {
        self.inner.load_latest_checkpoint()
    }
    fn load_checkpoint(&self, id: u64) -> Result<Option<Checkpoint>, StoreError> {
        self.inner.load_checkpoint(id)
    }
    fn list_checkpoints(&self) -> Result<Vec<u64>, StoreError> {
        self.inner.list_checkpoints()
    }
    fn prune_checkpoints(&self, keep: usize) -> Result<usize, StoreError> {
        self.tick();
        self.inner.prune_checkpoints(keep)
    }
    fn put(&self, k: &str, v: &[u8]) -> Result<(), StoreError> {
        self.tick();
        if k.starts_with("tenant:") && self.lose_snapshots.load(Ordering::SeqCst) {
            return Ok(());
        }
        self.inner.put(k, v)
    }
    fn get(&self, k: &str) -> Result<Option<Vec<u8>>, StoreError> {
        self.inner.get(k)
    }
    fn delete(&self, k: &str) -> Result<(), StoreError> {
        self.tick();
        self.inner.delete(k)
    }
    fn flush(&self) -> Result<(), StoreError> {
        self.inner.flush()
    }
}

// ------------------------------------------------------------------------------------------------
// operations and reference model

#[derive(Clone, Copy, Debug, PartialEq, Eq, Hash)]
enum Op {
    CreateTenant(usize),
    Deploy(usize, usize),
    DeployBad(usize),
    Reload(usize, usize),
    DeletePipeline(usize, usize),
    DeleteTenant(usize),
}
impl Op {
    fn kind(&self) -> &'static str {
        match self {
            Op::CreateTenant(_) => "create_tenant",
            Op::Deploy(..) => "deploy",
            Op::DeployBad(_) => "deploy_invalid_source",
            Op::Reload(..) => "reload",
            Op::DeletePipeline(..) => "delete_pipeline",
            Op::DeleteTenant(_) => "delete_tenant",
        }
    }
    fn show(&self) -> String {
        match *self {
            Op::CreateTenant(t) => format!("create tenant {}", TENANTS[t]),
            Op::Deploy(t, p) => format!("deploy {} on {}", PIPES[p], TENANTS[t]),
            Op::DeployBad(t) => format!("deploy a pipeline with unparsable source on {}", TENANTS[t]),
            Op::Reload(t, p) => format!("reload {} of {} with the other source", PIPES[p], TENANTS[t]),
            Op::DeletePipeline(t, p) => format!("delete pipeline {} of {}", PIPES[p], TENANTS[t]),
            Op::DeleteTenant(t) => format!("delete tenant {}", TENANTS[t]),
        }
    }
}

/// simplest first; `nt` tenants, `np` pipeline names
fn alphabet(nt: usize, np: usize) -> Vec<Op> {
    let mut v = Vec::new();
    for t in 0..nt {
        v.push(Op::CreateTenant(t));
    }
    for t in 0..nt {
        for p in 0..np {
            v.push(Op::Deploy(t, p));
        }
    }
    for t in 0..nt {
        for p in 0..np {
            v.push(Op::Reload(t, p));
        }
    }
    for t in 0..nt {
        for p in 0..np {
            v.push(Op::DeletePipeline(t, p));
        }
    }
    for t in 0..nt {
        v.push(Op::DeleteTenant(t));
    }
    for t in 0..nt {
        v.push(Op::DeployBad(t));
    }
    v
}

#[derive(Clone, Debug, PartialEq, Eq)]
struct MPipe {
    name: String,
    id: String,
    source: String,
}
#[derive(Clone, Debug, PartialEq, Eq)]
struct MTenant {
    name: String,
    id: String,
    key: String,
    pipes: Vec<MPipe>,
}
/// acknowledged state: live tenants in creation order
#[derive(Clone, Debug, Default, PartialEq, Eq)]
struct Model {
    tenants: Vec<MTenant>,
}
impl Model {
    fn tenant(&self, t: usize) -> Option<&MTenant> {
        self.tenants.iter().find(|x| x.name == TENANTS[t])
    }
    fn tenant_mut(&mut self, t: usize) -> Option<&mut MTenant> {
        self.tenants.iter_mut().find(|x| x.name == TENANTS[t])
    }
    fn pipe(&self, t: usize, p: usize) -> Option<&MPipe> {
        self.tenant(t).and_then(|x| x.pipes.iter().find(|q| q.name == PIPES[p]))
    }
    /// operations are only issued against objects that exist in the acknowledged state
    fn enabled(&self, op: &Op) -> bool {
        match *op {
            Op::CreateTenant(t) => self.tenant(t).is_none(),
            Op::Deploy(t, p) => self.tenant(t).is_some() && self.pipe(t, p).is_none(),
            Op::DeployBad(t) | Op::DeleteTenant(t) => self.tenant(t).is_some(),
            Op::Reload(t, p) | Op::DeletePipeline(t, p) => self.pipe(t, p).is_some(),
        }
    }
    fn other_source(cur: &str) -> &'static str {
        if cur == SOURCES[0] {
            SOURCES[1]
        } else {
            SOURCES[0]
        }
    }
    /// effect of an acknowledged operation; `tid`/`key`/`pid` are what the server put in its answer
    fn apply(&mut self, op: &Op, new_id: &str, new_key: &str) {
        match *op {
            Op::CreateTenant(t) => self.tenants.push(MTenant { name: TENANTS[t].into(), id: new_id.into(), key: new_key.into(), pipes: vec![] }),
            Op::Deploy(t, p) => {
                if let Some(x) = self.tenant_mut(t) {
                    x.pipes.push(MPipe { name: PIPES[p].into(), id: new_id.into(), source: SOURCES[0].into() })
                }
            }
            Op::DeployBad(t) => {
                if let Some(x) = self.tenant_mut(t) {
                    x.pipes.push(MPipe { name: "bad".into(), id: new_id.into(), source: BAD_SOURCE.into() })
                }
            }
            Op::Reload(t, p) => {
                if let Some(q) = self.tenant_mut(t).and_then(|x| x.pipes.iter_mut().find(|q| q.name == PIPES[p])) {
                    q.source = Self::other_source(&q.source).into();
                }
            }
            Op::DeletePipeline(t, p) => {
                if let Some(x) = self.tenant_mut(t) {
                    x.pipes.retain(|q| q.name != PIPES[p]);
                }
            }
            Op::DeleteTenant(t) => self.tenants.retain(|x| x.name != TENANTS[t]),
        }
    }
    /// canonical state (no ids): what `bfs_histories` merges on. It contains everything the real
    /// transition functions read: live tenants in index order, their pipelines and sources.
    fn shape(&self) -> Vec<(String, Vec<(String, String)>)> {
        self.tenants
            .iter()
            .map(|t| {
                let mut ps: Vec<(String, String)> = t.pipes.iter().map(|p| (p.name.clone(), p.source.clone())).collect();
                ps.sort();
                (t.name.clone(), ps)
            })
            .collect()
    }
    fn expected(&self) -> Obs {
        Obs {
            tenants: self
                .tenants
                .iter()
                .map(|t| {
                    (
                        t.id.clone(),
                        OTenant {
                            name: t.name.clone(),
                            key: t.key.clone(),
                            key_lookup_ok: true,
                            pipes: t.pipes.iter().map(|p| (p.id.clone(), (p.name.clone(), p.source.clone(), "running".to_string()))).collect(),
                        },
                    )
                })
                .collect(),
        }
    }
}

/// what a restarted server holds
#[derive(Clone, Debug, Default, PartialEq, Eq)]
struct Obs {
    tenants: BTreeMap<String, OTenant>,
}
#[derive(Clone, Debug, PartialEq, Eq)]
struct OTenant {
    name: String,
    key: String,
    key_lookup_ok: bool,
    /// id -> (name, source, status)
    pipes: BTreeMap<String, (String, String, String)>,
}

fn observe(m: &TenantManager) -> Obs {
    let mut o = Obs::default();
    for t in m.list_tenants() {
        let key_lookup_ok = m.get_tenant_by_api_key(&t.api_key) == Some(&t.id);
        let pipes = t.pipelines.values().map(|p| (p.id.clone(), (p.name.clone(), p.source.clone(), p.status.to_string()))).collect();
        o.tenants.insert(t.id.as_str().to_string(), OTenant { name: t.name.clone(), key: t.api_key.clone(), key_lookup_ok, pipes });
    }
    o
}

/// After a crash: the model before the in-flight operation, or that model with the operation applied
/// (ids of objects the lost answer would have named are free).
fn inflight_ok(obs: &Obs, pre: &Model, op: &Op) -> bool {
    let exp_pre = pre.expected();
    if *obs == exp_pre {
        return true;
    }
    match *op {
        Op::Reload(..) | Op::DeletePipeline(..) | Op::DeleteTenant(_) => {
            let mut post = pre.clone();
            post.apply(op, "", "");
            *obs == post.expected()
        }
        Op::CreateTenant(t) => {
            let extra: Vec<&String> = obs.tenants.keys().filter(|id| !exp_pre.tenants.contains_key(*id)).collect();
            if extra.len() != 1 {
                return false;
            }
            let id = extra[0].clone();
            let ot = &obs.tenants[&id];
            let mut rest = obs.clone();
            rest.tenants.remove(&id);
            rest == exp_pre && ot.name == TENANTS[t] && ot.pipes.is_empty() && ot.key_lookup_ok && !ot.key.is_empty() && !id.is_empty()
        }
        Op::Deploy(t, p) => {
            let Some(mt) = pre.tenant(t) else { return false };
            let Some(ot) = obs.tenants.get(&mt.id) else { return false };
            let known: Vec<&String> = mt.pipes.iter().map(|q| &q.id).collect();
            let extra: Vec<&String> = ot.pipes.keys().filter(|id| !known.contains(id)).collect();
            if extra.len() != 1 {
                return false;
            }
            let pid = extra[0].clone();
            let ok = ot.pipes[&pid] == (PIPES[p].to_string(), SOURCES[0].to_string(), "running".to_string());
            let mut rest = obs.clone();
            if let Some(x) = rest.tenants.get_mut(&mt.id) {
                x.pipes.remove(&pid);
            }
            ok && rest == exp_pre
        }
        Op::DeployBad(_) => false,
    }
}

/// ids and keys replaced by the user-given names (for messages and the determinism check)
fn canonical(obs: &Obs, model: &Model) -> String {
    let tname = |id: &str| model.tenants.iter().find(|t| t.id == id).map(|t| format!("id({})", t.name)).unwrap_or_else(|| "id(?)".into());
    let kname = |k: &str| model.tenants.iter().find(|t| t.key == k).map(|t| format!("key({})", t.name)).unwrap_or_else(|| "key(?)".into());
    let pname = |id: &str| model.tenants.iter().flat_map(|t| t.pipes.iter().map(move |p| (t, p))).find(|(_, p)| p.id == id).map(|(t, p)| format!("id({}/{})", t.name, p.name)).unwrap_or_else(|| "id(?)".into());
    let mut ts: Vec<String> = obs
        .tenants
        .iter()
        .map(|(id, t)| {
            let mut ps: Vec<String> = t.pipes.iter().map(|(pid, (n, s, st))| format!("{n}[{} src={:?} {st}]", pname(pid), s)).collect();
            ps.sort();
            format!("{}[{} {}{}] {{{}}}", t.name, tname(id), kname(&t.key), if t.key_lookup_ok { "" } else { " KEY-LOOKUP-BROKEN" }, ps.join(", "))
        })
        .collect();
    ts.sort();
    format!("[{}]", ts.join("; "))
}

// ------------------------------------------------------------------------------------------------
// execution

static DIR_SEQ: AtomicU64 = AtomicU64::new(0);

struct Exec {
    pre: Model,
    /// model after the last operation if it was acknowledged
    post: Model,
    last_status: Option<u16>,
    crashed: bool,
    foreign_panic: Option<String>,
    writes_last: usize,
    recovered: Result<Obs, String>,
}

async fn issue(routes: &Routes, model: &Model, op: &Op) -> Resp {
    let admin = [("x-admin-key", ADMIN)];
    match *op {
        Op::CreateTenant(t) => send(routes, "POST", "/api/v1/tenants", &admin, Some(&json!({"name": TENANTS[t]}))).await,
        Op::DeleteTenant(t) => {
            let id = model.tenant(t).map(|x| x.id.clone()).unwrap_or_default();
            send(routes, "DELETE", &format!("/api/v1/tenants/{id}"), &admin, None).await
        }
        Op::Deploy(t, _) | Op::DeployBad(t) | Op::Reload(t, _) | Op::DeletePipeline(t, _) => {
            let key = model.tenant(t).map(|x| x.key.clone()).unwrap_or_default();
            let hdr = [("x-api-key", key.as_str())];
            match *op {
                Op::Deploy(_, p) => send(routes, "POST", "/api/v1/pipelines", &hdr, Some(&json!({"name": PIPES[p], "source": SOURCES[0]}))).await,
                Op::DeployBad(_) => send(routes, "POST", "/api/v1/pipelines", &hdr, Some(&json!({"name": "bad", "source": BAD_SOURCE}))).await,
                Op::Reload(_, p) => {
                    let (pid, cur) = model.pipe(t, p).map(|q| (q.id.clone(), q.source.clone())).unwrap_or_default();
                    send(routes, "POST", &format!("/api/v1/pipelines/{pid}/reload"), &hdr, Some(&json!({"source": Model::other_source(&cur)}))).await
                }
                _ => {
                    let p = if let Op::DeletePipeline(_, p) = *op { p } else { 0 };
                    let pid = model.pipe(t, p).map(|q| q.id.clone()).unwrap_or_default();
                    send(routes, "DELETE", &format!("/api/v1/pipelines/{pid}"), &hdr, None).await
                }
            }
        }
    }
}

fn ack(model: &mut Model, op: &Op, r: &Resp) {
    if r.ok() {
        let id = r.json["id"].as_str().unwrap_or("");
        let key = r.json["api_key"].as_str().unwrap_or("");
        model.apply(op, id, key);
    }
}

fn open_store(kind: usize, base: &Path) -> (Arc<dyn StateStore>, Option<PathBuf>) {
    if kind == 0 {
        (Arc::new(MemoryStore::new()), None)
    } else {
        let dir = base.join(format!("s{}", DIR_SEQ.fetch_add(1, Ordering::Relaxed)));
        let fs = FileStore::open(&dir).unwrap_or_else(|e| mc::machinery_error(&format!("FileStore::open: {e}")));
        (Arc::new(fs), Some(dir))
    }
}

/// Replay `hist` on a fresh server; the last operation runs with the crash point armed.
fn execute(store: usize, base: &Path, hist: &[Op], crash_after: Option<usize>) -> Exec {
    let (inner, dir) = open_store(store, base);
    let crash = Arc::new(CrashStore::new(inner.clone()));
    let ex = crate::common::block_on(async {
        let mgr = varpulis_runtime::tenant::shared_tenant_manager_with_store(crash.clone());
        let routes = routes(mgr.clone());
        let mut model = Model::default();
        let mut ex = Exec { pre: Model::default(), post: Model::default(), last_status: None, crashed: false, foreign_panic: None, writes_last: 0, recovered: Err(String::new()) };
        for (i, op) in hist.iter().enumerate() {
            if i + 1 < hist.len() {
                let r = issue(&routes, &model, op).await;
                ack(&mut model, op, &r);
                continue;
            }
            ex.pre = model.clone();
            let inject = matches!(op, Op::Reload(..)) && std::env::var("VERIF_INJECT_FAULT").map(|v| v == "lose_reload_snapshot").unwrap_or(false);
            crash.lose_snapshots.store(inject, Ordering::SeqCst);
            crash.arm(crash_after);
            let r = std::panic::AssertUnwindSafe(issue(&routes, &model, op)).catch_unwind().await;
            ex.writes_last = crash.writes.load(Ordering::SeqCst);
            crash.arm(None);
            match r {
                Ok(r) => {
                    ex.last_status = Some(r.status);
                    ack(&mut model, op, &r);
                }
                Err(p) => {
                    if p.downcast_ref::<CrashMarker>().is_some() {
                        ex.crashed = true;
                    } else {
                        ex.foreign_panic = Some(p.downcast_ref::<String>().cloned().or_else(|| p.downcast_ref::<&str>().map(|s| s.to_string())).unwrap_or_else(|| "panic".into()));
                    }
                }
            }
        }
        if hist.is_empty() {
            ex.pre = model.clone();
        }
        ex.post = model;
        drop(routes);
        drop(mgr);
        ex
    });
    // restart
    let mut ex = ex;
    let mut m2 = TenantManager::with_store(inner);
    ex.recovered = match mc::catch(|| m2.recover()) {
        Ok(Ok(_)) => Ok(observe(&m2)),
        Ok(Err(e)) => Err(format!("recover() returned Err({})", scrub_uuids(&e.to_string()))),
        Err(p) => Err(format!("recover() panicked: {p}")),
    };
    drop(m2);
    if let Some(d) = dir {
        let _ = std::fs::remove_dir_all(d);
    }
    ex
}

fn hist_json(store: usize, hist: &[Op], alphabet: &[Op], crash_after: Option<usize>) -> J {
    json!({
        "store": STORES[store],
        "ops": hist.iter().map(|o| alphabet.iter().position(|a| a == o)).collect::<Vec<_>>(),
        "alphabet_tenants": 2, "alphabet_pipelines": 3,
        "readable": hist.iter().map(|o| o.show()).collect::<Vec<_>>(),
        "crash_after_writes_of_last_op": crash_after,
    })
}

/// All executions for one history: acknowledged run + one crash run per store write of the last op.
/// Returns the model reached (None when the history is not enabled).
fn check_history(store: usize, base: &Path, hist: &[Op], alphabet: &[Op], acc: &mut Acc, verbose: bool) -> Option<Model> {
    // enabledness is decided by the model alone, before any real execution
    {
        let mut m = Model::default();
        for op in hist {
            if !m.enabled(op) {
                return None;
            }
            if !matches!(op, Op::DeployBad(_)) {
                m.apply(op, "x", "x");
            }
        }
    }
    let run = execute(store, base, hist, None);
    acc.evaluations += 1;
    let last = hist.last();
    let kind = last.map(|o| o.kind()).unwrap_or("empty_history");
    let readable = || hist.iter().map(|o| o.show()).collect::<Vec<_>>().join(" → ");
    if let Some(p) = &run.foreign_panic {
        acc.viol.add(format!("C22:{}:{kind}:handler_panic", STORES[store]), format!("[{}] the last request panicked: {p}", readable()), hist_json(store, hist, alphabet, None), hist.len());
        return None;
    }
    // the model's expectation about which operations the server acknowledges is part of the driver,
    // not of the property: an unexpected refusal of an enabled operation means the driver is wrong
    if let (Some(op), Some(st)) = (last, run.last_status) {
        let acked = (200..300).contains(&st);
        if acked == matches!(op, Op::DeployBad(_)) {
            mc::machinery_error(&format!("driver: [{}] answered HTTP {st}", readable()));
        }
    }
    let exp = run.post.expected();
    let acked_ok = run.recovered.as_ref().map(|o| *o == exp).unwrap_or(false);
    if !exp.tenants.values().all(|t| t.pipes.is_empty()) {
        acc.nontrivial += 1;
    }
    if verbose {
        println!("REPLAY acknowledged run: recovered {}", run.recovered.as_ref().map(|o| canonical(o, &run.post)).unwrap_or_else(|e| e.clone()));
    }
    if let Ok(o) = &run.recovered {
        acc.outcome(&canonical(o, &run.post));
    }
    if !acked_ok {
        let got = run.recovered.as_ref().map(|o| canonical(o, &run.post)).unwrap_or_else(|e| e.clone());
        acc.viol.add(
            format!("C22:{}:{kind}:acknowledged", STORES[store]),
            format!("[{}] all acknowledged, then restart: expected {} but recovered {got}", readable(), canonical(&exp, &run.post)),
            hist_json(store, hist, alphabet, None),
            hist.len(),
        );
    }
    let Some(op) = last else { return Some(run.post) };
    let w = run.writes_last;
    acc.count("store_writes_of_last_op", w as u64);
    for j in 0..w {
        let c = execute(store, base, hist, Some(j));
        acc.evaluations += 1;
        acc.count("crash_points", 1);
        if j > 0 {
            acc.nontrivial += 1;
        }
        let class = if j == 0 { "crash_before_first_write".to_string() } else { format!("crash_after_write_{j}") };
        if !c.crashed {
            mc::machinery_error(&format!("driver: crash point {j} of [{}] was not reached ({} writes seen)", readable(), c.writes_last));
        }
        let ok = c.recovered.as_ref().map(|o| inflight_ok(o, &c.pre, op)).unwrap_or(false);
        if verbose {
            println!("REPLAY crash after {j} of {w} writes: recovered {}", c.recovered.as_ref().map(|o| canonical(o, &c.pre)).unwrap_or_else(|e| e.clone()));
        }
        if let Ok(o) = &c.recovered {
            acc.outcome(&(j, canonical(o, &c.pre)));
        }
        if !ok {
            let got = c.recovered.as_ref().map(|o| canonical(o, &c.pre)).unwrap_or_else(|e| e.clone());
            acc.viol.add(
                format!("C22:{}:{kind}:{class}", STORES[store]),
                format!("[{}] crash after {j} of the {w} store writes of the last request, restart: acknowledged state is {} (the in-flight operation may also be present) but recovered {got}", readable(), canonical(&c.pre.expected(), &c.pre)),
                hist_json(store, hist, alphabet, Some(j)),
                hist.len(),
            );
        }
    }
    Some(run.post)
}

fn self_test() {
    let mut m = Model::default();
    assert!(m.enabled(&Op::CreateTenant(0)) && !m.enabled(&Op::Deploy(0, 0)) && !m.enabled(&Op::DeleteTenant(1)));
    m.apply(&Op::CreateTenant(0), "T", "K");
    assert!(!m.enabled(&Op::CreateTenant(0)) && m.enabled(&Op::Deploy(0, 2)) && !m.enabled(&Op::Reload(0, 2)));
    m.apply(&Op::Deploy(0, 2), "P", "");
    assert_eq!(m.shape(), vec![("t1".to_string(), vec![("p3".to_string(), SOURCES[0].to_string())])]);
    let pre = m.clone();
    m.apply(&Op::Reload(0, 2), "", "");
    assert_eq!(m.pipe(0, 2).map(|p| p.source.as_str()), Some(SOURCES[1]));
    // in flight: reload may be absent or present, nothing else
    assert!(inflight_ok(&pre.expected(), &pre, &Op::Reload(0, 2)) && inflight_ok(&m.expected(), &pre, &Op::Reload(0, 2)));
    let mut lost = pre.clone();
    lost.apply(&Op::DeletePipeline(0, 2), "", "");
    assert!(!inflight_ok(&lost.expected(), &pre, &Op::Reload(0, 2)));
    // in-flight deploy: one extra pipeline with any id, right name and source
    let mut more = pre.clone();
    more.apply(&Op::Deploy(0, 0), "fresh-id", "");
    assert!(inflight_ok(&more.expected(), &pre, &Op::Deploy(0, 0)) && !inflight_ok(&more.expected(), &pre, &Op::Deploy(0, 1)));
    // in-flight create: one extra empty tenant; an acknowledged tenant must keep its key
    let mut two = pre.clone();
    two.apply(&Op::CreateTenant(1), "T2", "K2");
    assert!(inflight_ok(&two.expected(), &pre, &Op::CreateTenant(1)));
    let mut wrong_key = pre.expected();
    wrong_key.tenants.get_mut("T").unwrap().key = "other".into();
    assert!(!inflight_ok(&wrong_key, &pre, &Op::CreateTenant(1)));
    m.apply(&Op::DeleteTenant(0), "", "");
    assert!(m.tenants.is_empty() && m.expected() == Obs::default());
    assert_eq!(alphabet(2, 3).len(), 24);
}

pub fn run(args: &Args) -> ! {
    self_test();
    let mut rep = Report::new(args, "model_checking");
    let base = mc::scratch_dir("C22");
    let alpha = alphabet(2, 3);

    if let Some(path) = &args.replay {
        let case = mc::load_replay(path);
        let store = STORES.iter().position(|s| Some(*s) == case["store"].as_str()).unwrap_or(0);
        let hist: Vec<Op> = case["ops"].as_array().map(|a| a.iter().map(|v| alpha[v.as_u64().unwrap_or(0) as usize]).collect()).unwrap_or_default();
        let mut acc = Acc::default();
        println!("REPLAY store={} history: {}", STORES[store], hist.iter().map(|o| o.show()).collect::<Vec<_>>().join(" → "));
        if check_history(store, &base, &hist, &alpha, &mut acc, true).is_none() {
            println!("REPLAY: the history is not enabled in the reference model (or a handler panicked)");
        }
        rep.absorb(acc);
        rep.evaluations = rep.evaluations.max(1);
        let _ = std::fs::remove_dir_all(&base);
        rep.finish();
    }

    // determinism: first and last explored histories, twice each, identical canonical observations
    let first = vec![Op::CreateTenant(0)];
    let last = vec![Op::CreateTenant(0), Op::Deploy(0, 0), Op::CreateTenant(1), Op::Deploy(1, 2), Op::Reload(0, 0), Op::DeletePipeline(1, 2), Op::DeleteTenant(0)];
    for store in 0..STORES.len() {
        for h in [&first, &last] {
            for crash in [None, Some(1)] {
                let obs: Vec<String> = (0..2)
                    .map(|_| {
                        let e = execute(store, &base, h, crash);
                        format!("{:?} {} {}", e.last_status, e.crashed, e.recovered.as_ref().map(|o| canonical(o, &e.post)).unwrap_or_else(|x| x.clone()))
                    })
                    .collect();
                if obs[0] != obs[1] {
                    mc::machinery_error(&format!("nondeterministic replay ({} store): {} vs {}", STORES[store], obs[0], obs[1]));
                }
                if store == 1 {
                    rep.sample(json!({"store": STORES[store], "history": h.iter().map(|o| o.show()).collect::<Vec<_>>(), "crash_after_writes_of_last_op": crash, "recovered": obs[0]}));
                }
            }
        }
    }

    let deadline = crate::common::wall_cap(args, 34, 1080);
    let total_acc = Mutex::new(Acc::default());

    // ---- Phase B (first: it is the bound DESIGN states): every enabled history up to a depth, no
    // state merging.
    let depth_b = args.tier.pick(3usize, 5usize);
    let mut acc_b = Acc::default();
    for (store, depth) in [(0usize, depth_b), (1usize, depth_b - 1)] {
        let space = mc::SeqSpace::new(alpha.len(), 0, depth);
        let (acc, done) = mc::par_indices(space.total(), args.threads, 64, |i, acc| {
            if deadline.expired() {
                return false;
            }
            let mut h = Vec::new();
            space.decode(i, &mut h);
            let hist: Vec<Op> = h.iter().map(|k| alpha[*k]).collect();
            let before = acc.evaluations;
            if check_history(store, &base, &hist, &alpha, acc, false).is_some() {
                acc.count(&format!("unmerged_{}_histories", STORES[store]), 1);
                acc.count(&format!("unmerged_{}_executions", STORES[store]), acc.evaluations - before);
                if hist.len() == 3 && acc.samples.len() < 2 {
                    acc.samples.push(json!({"store": STORES[store], "history": hist.iter().map(|o| o.show()).collect::<Vec<_>>(), "crash_points": "before each store write of the last request, and none"}));
                }
            }
            true
        });
        if !done {
            rep.cap_hit(&format!("wall cap during the unmerged enumeration ({} store, depth ≤ {depth})", STORES[store]));
        }
        acc_b.merge(acc);
    }
    let acc = acc_b;

    // ---- Phase A: explicit-state BFS (states merged on the canonical model state), every enabled
    // operation from every reached state, every crash point of it. The full state space of the
    // alphabet (1513 states) is reached at depth 14.
    let depths_a = [args.tier.pick(4usize, 7usize), args.tier.pick(4usize, 5usize)];
    for store in 0..STORES.len() {
        let depth_a = depths_a[store];
        let stats = mc::bfs_histories(alpha.len(), depth_a, args.threads, &deadline, |h: &[usize]| {
            let hist: Vec<Op> = h.iter().map(|i| alpha[*i]).collect();
            let mut acc = Acc::default();
            let r = check_history(store, &base, &hist, &alpha, &mut acc, false);
            total_acc.lock().unwrap().merge(acc);
            r.map(|m| m.shape())
        });
        rep.states += stats.states;
        rep.transitions += stats.transitions;
        rep.set(&format!("bfs_{}_states", STORES[store]), json!(stats.states));
        rep.set(&format!("bfs_{}_transitions", STORES[store]), json!(stats.transitions));
        rep.set(&format!("bfs_{}_depth_bound", STORES[store]), json!(depth_a));
        if !stats.complete {
            rep.cap_hit(&format!("wall cap during the {} store BFS (depth bound {depth_a}; the last completed level is {})", STORES[store], stats.max_depth));
        }
    }
    let mut bfs_acc = total_acc.into_inner().unwrap();
    bfs_acc.merge(acc);
    rep.absorb(bfs_acc);
    rep.traces = rep.evaluations;
    rep.set("op_alphabet", json!(alpha.iter().map(|o| o.show()).collect::<Vec<_>>()));
    rep.set("unmerged_depth_bound", json!(depth_b));
    rep.rule = format!(
        "E2 on the real route tree + TenantManager + real MemoryStore/FileStore behind a crashing StateStore wrapper. Alphabet ({} ops): create tenant t1/t2, deploy p1–p3 on t, reload p on t with the other of two sources, delete pipeline, delete tenant, deploy with unparsable source (must be refused, nothing persisted); an operation is enabled when its target exists in the acknowledged state (and a name is not created twice). Phase A: breadth-first search, states merged on the canonical acknowledged state (live tenants in creation order with pipeline names and sources), depth bound {} (memory store) / {} (file store); Phase B: every enabled history of length ≤ {depth_b} (memory store) / ≤ {} (file store) without merging. For every explored history: one fully acknowledged run followed by a restart, and one run per store write of the last request in which the wrapper unwinds just before that write (crash after 0..W−1 completed writes; 'after all writes but before the answer' is the acknowledged run judged with the stricter oracle), each followed by restart = TenantManager::with_store(inner) + recover(). Non-trivial = acknowledged run whose state has at least one pipeline, or crash run with at least one write of the in-flight request already completed.",
        alpha.len(),
        depths_a[0],
        depths_a[1],
        depth_b - 1
    );
    rep.assume("a crash is a stop of the whole process between two StateStore calls (the wrapper unwinds; it never returns an I/O error, and a single put is atomic: torn file writes are C21's subject)");
    rep.assume("operations addressing tenants/pipelines that do not exist in the acknowledged state, and duplicate names, are not in the alphabet (2 tenant names, 3 pipeline names, as in the property's quantifier)");
    rep.assume("pipeline status is always 'running' (the API has no stop operation); usage counters are not part of this property");
    rep.assume("BFS merging assumes the store content is a function of the canonical state up to ids and map order; Phase B re-checks all short histories without that assumption");
    let _ = std::fs::remove_dir_all(&base);
    rep.finish();
}

/// Server-generated ids (uuids) differ between executions; error texts that quote them are compared
/// (replay-determinism gate) and reported with the ids replaced.
fn scrub_uuids(s: &str) -> String {
    let b: Vec<char> = s.chars().collect();
    let is_uuid_at = |i: usize| -> bool {
        let pat = [8usize, 4, 4, 4, 12];
        let mut j = i;
        for (k, n) in pat.iter().enumerate() {
            for _ in 0..*n {
                if j >= b.len() || !b[j].is_ascii_hexdigit() {
                    return false;
                }
                j += 1;
            }
            if k < 4 {
                if j >= b.len() || b[j] != '-' {
                    return false;
                }
                j += 1;
            }
        }
        true
    };
    let mut out = String::new();
    let mut i = 0;
    while i < b.len() {
        if is_uuid_at(i) {
            out.push_str("<uuid>");
            i += 36;
        } else {
            out.push(b[i]);
            i += 1;
        }
    }
    out
}
