//! C18 — multi-worker `varpulis simulate` emits the same multiset of output events as one worker
//! (DESIGN.md §3).
//!
//! Drives the real `varpulis` binary (path in env VERIF_VARPULIS_BIN, built by /verif/check from the
//! working tree of /repo): `simulate -p P -e F --immediate --verbose [--preload] --workers N`.
//! Space: stateless programs and programs whose only state is partitioned by the key the CLI infers
//! (`.partition_by(k)` count window + aggregate; partitioned 2-step sequences), every event file over
//! the program's event alphabet up to a length (plus longer periodic files), N up to the tier's
//! bound, both modes. Oracle (differential, nothing hand-written): the multiset of `OUTPUT EVENT`
//! lines of the N-worker run equals that of the 1-worker run of the same mode.
//! The binary waits a fixed 100 ms for its printer task before exiting — a timing assumption of the
//! binary — so a mismatch is re-run three times alone; only a mismatch that reproduces every time is a
//! violation, anything else is machinery noise (exit 2).

use mc::{Acc, Args, Multiset, Report, Tier};
use serde_json::{json, Value as J};
use std::path::{Path, PathBuf};
use std::process::{Command, Stdio};
use std::sync::Mutex;
use std::time::{Duration, Instant};

struct Prog {
    name: &'static str,
    kind: &'static str,
    src: &'static str,
    /// event alphabet: (event type, key)
    events: &'static [(&'static str, &'static str)],
}

const ONE_TYPE: &[(&str, &str)] = &[("E", "x"), ("E", "y"), ("E", "z")];
const TWO_TYPES: &[(&str, &str)] = &[("A", "x"), ("B", "x"), ("A", "y"), ("B", "y")];

/// alphabets with events that do NOT carry the partition key field `k` (key "-"): the engine puts
/// them in its default partition, so the CLI must keep them together as well (added after seeded
/// change C18: key-less events spread round-robin)
const ONE_TYPE_KEYLESS: &[(&str, &str)] = &[("E", "-"), ("E", "x")];
const TWO_TYPES_KEYLESS: &[(&str, &str)] = &[("A", "-"), ("B", "-"), ("A", "x")];

const PROGS: [Prog; 8] = [
    Prog { name: "filter_emit", kind: "stateless", src: "stream S = E\n    .where(v > 1)\n    .emit(id: id, k: k, v: v)\n", events: ONE_TYPE },
    Prog { name: "filter_chain", kind: "stateless", src: "stream S = E\n    .where(v >= 2)\n    .emit(id: id, k: k, d: v * 2)\nstream T = S\n    .where(d > 4)\n    .emit(id: id, k: k)\n", events: ONE_TYPE },
    Prog { name: "count_window_aggregate", kind: "keyed", src: "stream S = E\n    .partition_by(k)\n    .window(2)\n    .aggregate(kk: last(k), c: count(), s: sum(v), f: first(id))\n    .emit(k: kk, c: c, s: s, f: f)\n", events: ONE_TYPE },
    Prog { name: "sequence_one_type", kind: "keyed", src: "stream S = E as a -> E as b\n    .partition_by(k)\n    .emit(a: a.id, b: b.id, k: a.k)\n", events: ONE_TYPE },
    Prog { name: "sequence_two_types", kind: "keyed", src: "stream S = A as a -> B as b\n    .partition_by(k)\n    .emit(a: a.id, b: b.id, k: a.k)\n", events: TWO_TYPES },
    Prog { name: "count_window_aggregate_keyless_events", kind: "keyed", src: "stream S = E\n    .partition_by(k)\n    .window(2)\n    .aggregate(c: count(), s: sum(v), f: first(id))\n    .emit(c: c, s: s, f: f)\n", events: ONE_TYPE_KEYLESS },
    Prog { name: "sequence_one_type_keyless_events", kind: "keyed", src: "stream S = E as a -> E as b\n    .partition_by(k)\n    .emit(a: a.id, b: b.id)\n", events: ONE_TYPE_KEYLESS },
    Prog { name: "sequence_two_types_keyless_events", kind: "keyed", src: "stream S = A as a -> B as b\n    .partition_by(k)\n    .emit(a: a.id, b: b.id)\n", events: TWO_TYPES_KEYLESS },
];
const MODES: [&str; 2] = ["streaming", "preload"];

/// event file for a sequence of alphabet symbols: id = position, v cycles 1,2,3 (no `@` time
/// prefixes: the streaming reader skips such lines entirely, which is C46's subject, not this one's)
fn event_file(p: &Prog, seq: &[usize]) -> String {
    let mut s = String::new();
    for (i, sym) in seq.iter().enumerate() {
        let (ty, k) = p.events[*sym];
        if k == "-" {
            s.push_str(&format!("{ty} {{ id: {i}, v: {} }}\n", i % 3 + 1));
        } else {
            s.push_str(&format!("{ty} {{ id: {i}, k: \"{k}\", v: {} }}\n", i % 3 + 1));
        }
    }
    s
}

fn binary() -> PathBuf {
    if let Some(p) = std::env::var_os("VERIF_VARPULIS_BIN") {
        let p = PathBuf::from(p);
        if !p.is_file() {
            mc::machinery_error(&format!("VERIF_VARPULIS_BIN={p:?} is not a file"));
        }
        return p;
    }
    // same build as /verif/check build_cli_binary()
    let target = format!("{}/target/repo-bin", mc::VERIF_ROOT);
    let st = Command::new("cargo")
        .args(["build", "--offline", "--profile", "verif", "--manifest-path", "/repo/Cargo.toml", "-p", "varpulis-cli", "--bin", "varpulis", "--target-dir", &target])
        .args(["--config", "profile.verif.inherits='dev'", "--config", "profile.verif.opt-level=2", "--config", "profile.verif.debug='line-tables-only'", "--config", "profile.verif.incremental=false"])
        .env("RUSTFLAGS", "--cfg varpulis_verif")
        .env("CARGO_NET_OFFLINE", "true")
        .current_dir("/repo")
        .stdout(Stdio::null())
        .stderr(Stdio::null())
        .status();
    let p = PathBuf::from(format!("{target}/verif/varpulis"));
    match st {
        Ok(s) if s.success() && p.is_file() => p,
        other => mc::machinery_error(&format!("VERIF_VARPULIS_BIN is not set and building the varpulis binary failed ({other:?})")),
    }
}

struct RunOut {
    exit_ok: bool,
    lines: Multiset<String>,
    n_lines: usize,
    /// "Output events emitted: M" of the run's summary
    emitted: Option<usize>,
}

fn simulate(bin: &Path, dir: &Path, prog: &Path, evt: &Path, mode: usize, n: usize, tag: &str) -> RunOut {
    simulate_opt(bin, dir, prog, evt, mode, n, tag, false)
}

/// `quiet`: run with --quiet instead of --verbose; the binary then reports the engines' own output
/// counters ("Output events emitted: M") without going through the printer task.
#[allow(clippy::too_many_arguments)]
fn simulate_opt(bin: &Path, dir: &Path, prog: &Path, evt: &Path, mode: usize, n: usize, tag: &str, quiet: bool) -> RunOut {
    let out_path = dir.join(format!("out-{tag}-{}-{n}{}.txt", MODES[mode], if quiet { "-q" } else { "" }));
    let out = std::fs::File::create(&out_path).unwrap_or_else(|e| mc::machinery_error(&format!("scratch file: {e}")));
    let mut cmd = Command::new(bin);
    cmd.arg("simulate").arg("-p").arg(prog).arg("-e").arg(evt).arg("--immediate").arg(if quiet { "--quiet" } else { "--verbose" });
    if mode == 1 {
        cmd.arg("--preload");
    }
    cmd.arg("--workers").arg(n.to_string());
    cmd.env("NO_COLOR", "1").env("RUST_LOG", "error").stdin(Stdio::null()).stdout(Stdio::from(out)).stderr(Stdio::null());
    let mut child = cmd.spawn().unwrap_or_else(|e| mc::machinery_error(&format!("cannot start {bin:?}: {e}")));
    let t0 = Instant::now();
    let status = loop {
        match child.try_wait() {
            Ok(Some(s)) => break s,
            Ok(None) if t0.elapsed() > Duration::from_secs(60) => {
                let _ = child.kill();
                mc::machinery_error(&format!("`varpulis simulate` did not finish within 60 s ({MODE} N={n})", MODE = MODES[mode]));
            }
            Ok(None) => std::thread::sleep(Duration::from_millis(4)),
            Err(e) => mc::machinery_error(&format!("wait: {e}")),
        }
    };
    let text = std::fs::read_to_string(&out_path).unwrap_or_default();
    let _ = std::fs::remove_file(&out_path);
    let lines: Vec<String> = text.lines().filter(|l| l.starts_with("OUTPUT EVENT:")).map(|l| l.to_string()).collect();
    let emitted = text.lines().find_map(|l| l.strip_prefix("Output events emitted:")).and_then(|v| v.trim().parse::<usize>().ok());
    RunOut { exit_ok: status.success(), n_lines: lines.len(), lines: mc::multiset(lines), emitted }
}

/// Completeness of an observation, decided without reference to the other side of the comparison: the
/// number of printed OUTPUT EVENT lines must reach the engines' own output count of a --quiet run of
/// the same command. A short observation (printer task starved during the binary's fixed 100 ms drain)
/// is repeated, merging by per-line maximum, at most four times.
fn complete(bin: &Path, dir: &Path, prog: &Path, evt: &Path, mode: usize, n: usize, tag: &str, mut out: RunOut, acc: &mut Acc) -> RunOut {
    let q = simulate_opt(bin, dir, prog, evt, mode, n, tag, true);
    acc.evaluations += 1;
    let Some(want) = q.emitted else { return out };
    for _ in 0..4 {
        if out.n_lines >= want {
            break;
        }
        acc.count("truncated_observations_repeated", 1);
        let again = simulate(bin, dir, prog, evt, mode, n, tag);
        acc.evaluations += 1;
        out = merge_max(out, again);
    }
    out
}

/// per-line maximum of two observations of the same command (lines can only be lost, never invented)
fn merge_max(a: RunOut, b: RunOut) -> RunOut {
    let mut lines = a.lines;
    for (l, c) in b.lines {
        let e = lines.entry(l).or_insert(0);
        *e = (*e).max(c);
    }
    RunOut { exit_ok: a.exit_ok && b.exit_ok, n_lines: lines.values().sum(), lines, emitted: a.emitted.max(b.emitted) }
}

#[derive(Clone)]
struct Case {
    prog: usize,
    seq: Vec<usize>,
}

#[derive(Clone)]
struct Mismatch {
    case: Case,
    mode: usize,
    n: usize,
    desc: String,
}

fn diff_desc(base: &RunOut, got: &RunOut) -> String {
    let missing: Vec<String> = base.lines.iter().filter(|(l, c)| got.lines.get(*l).copied().unwrap_or(0) < **c).map(|(l, _)| l.clone()).take(3).collect();
    let extra: Vec<String> = got.lines.iter().filter(|(l, c)| base.lines.get(*l).copied().unwrap_or(0) < **c).map(|(l, _)| l.clone()).take(3).collect();
    format!("1 worker: {} output events, N workers: {}{}; missing {missing:?}, extra {extra:?}", base.n_lines, got.n_lines, if got.exit_ok { "" } else { " (non-zero exit status)" })
}

/// All runs of one (program, event file); returns the mismatching (mode, N) pairs.
/// `None`: the wall cap expired in the middle of the case (the case is then not counted as covered).
fn run_case(bin: &Path, base_dir: &Path, idx: u64, c: &Case, ns: &[usize], deadline: &mc::Deadline, acc: &mut Acc) -> Option<Vec<Mismatch>> {
    let p = &PROGS[c.prog];
    let dir = base_dir.join(format!("c{idx}"));
    std::fs::create_dir_all(&dir).unwrap_or_else(|e| mc::machinery_error(&format!("scratch dir: {e}")));
    let prog = dir.join("prog.vpl");
    let evt = dir.join("events.evt");
    std::fs::write(&prog, p.src).and_then(|_| std::fs::write(&evt, event_file(p, &c.seq))).unwrap_or_else(|e| mc::machinery_error(&format!("scratch file: {e}")));
    let mut out = Vec::new();
    for mode in 0..MODES.len() {
        let mut base = simulate(bin, &dir, &prog, &evt, mode, 1, "b");
        acc.evaluations += 1;
        if !base.exit_ok {
            mc::machinery_error(&format!("the 1-worker run of program {} failed ({}); the program or event file is not accepted by the binary", p.name, MODES[mode]));
        }
        acc.outcome(&(c.prog, &base.lines));
        for &n in ns.iter().filter(|n| **n > 1) {
            if deadline.expired() {
                let _ = std::fs::remove_dir_all(&dir);
                return None;
            }
            let mut got = simulate(bin, &dir, &prog, &evt, mode, n, "n");
            acc.evaluations += 1;
            acc.count("comparisons", 1);
            if base.n_lines > 0 {
                acc.nontrivial += 1;
            }
            if got.exit_ok && got.lines != base.lines {
                // The only timing effect of the binary's fixed 100 ms drain is *lost* lines. Each side is
                // completed on its own (see `complete`); a real difference survives this and then still
                // has to pass the three isolated re-runs.
                acc.count("first_pass_mismatches_retried", 1);
                base = complete(bin, &dir, &prog, &evt, mode, 1, "b", base, acc);
                got = complete(bin, &dir, &prog, &evt, mode, n, "n", got, acc);
            }
            if !got.exit_ok || got.lines != base.lines {
                out.push(Mismatch { case: c.clone(), mode, n, desc: diff_desc(&base, &got) });
            }
        }
    }
    let _ = std::fs::remove_dir_all(&dir);
    Some(out)
}

fn case_json(c: &Case, mode: usize, n: usize) -> J {
    json!({"program": PROGS[c.prog].name, "events": c.seq, "mode": MODES[mode], "workers": n, "event_file": event_file(&PROGS[c.prog], &c.seq), "source": PROGS[c.prog].src})
}

/// Re-run one mismatching comparison alone; true when it mismatches again.
fn rerun(bin: &Path, base_dir: &Path, m: &Mismatch, tag: u64) -> (bool, String) {
    let p = &PROGS[m.case.prog];
    let dir = base_dir.join(format!("r{tag}"));
    std::fs::create_dir_all(&dir).unwrap_or_else(|e| mc::machinery_error(&format!("scratch dir: {e}")));
    let prog = dir.join("prog.vpl");
    let evt = dir.join("events.evt");
    std::fs::write(&prog, p.src).and_then(|_| std::fs::write(&evt, event_file(p, &m.case.seq))).unwrap_or_else(|e| mc::machinery_error(&format!("scratch file: {e}")));
    let mut scratch = Acc::default();
    let base = simulate(bin, &dir, &prog, &evt, m.mode, 1, "b");
    let base = complete(bin, &dir, &prog, &evt, m.mode, 1, "b", base, &mut scratch);
    let got = simulate(bin, &dir, &prog, &evt, m.mode, m.n, "n");
    let got = complete(bin, &dir, &prog, &evt, m.mode, m.n, "n", got, &mut scratch);
    let _ = std::fs::remove_dir_all(&dir);
    (!got.exit_ok || !base.exit_ok || got.lines != base.lines, diff_desc(&base, &got))
}

fn all_seqs(k: usize, min: usize, max: usize) -> Vec<Vec<usize>> {
    let sp = mc::SeqSpace::new(k, min, max);
    (0..sp.total())
        .map(|i| {
            let mut v = Vec::new();
            sp.decode(i, &mut v);
            v
        })
        .collect()
}

/// the case list of a tier (simplest first)
fn cases(tier: Tier) -> Vec<Case> {
    let mut v = Vec::new();
    for (pi, p) in PROGS.iter().enumerate() {
        let k = p.events.len();
        let mut seqs: Vec<Vec<usize>> = if p.kind == "stateless" {
            // the key is irrelevant to a stateless program; what matters is how a file of each length is chunked
            (1..=tier.pick(8, 12)).map(|len| (0..len).map(|i| i % k).collect()).collect()
        } else {
            match (tier, p.name) {
                (Tier::Quick, "count_window_aggregate") => all_seqs(k, 4, 4),
                (_, name) if name.ends_with("keyless_events") => all_seqs(k, 1, tier.pick(3, 5)),
                (Tier::Quick, _) => all_seqs(k, 3, 3),
                (Tier::Thorough, _) if k == 3 => all_seqs(k, 1, 5),
                (Tier::Thorough, _) => all_seqs(k, 1, 4),
            }
        };
        if p.kind == "keyed" && (tier == Tier::Thorough || k == 3) {
            // longer periodic files: every block of 2 (quick) / 3 (thorough) symbols repeated up to 8 / 12 events
            let (blk, total) = tier.pick((2, 8), (3, 12));
            for b in all_seqs(k, blk, blk) {
                seqs.push((0..total).map(|i| b[i % blk]).collect());
            }
        }
        for seq in seqs {
            v.push(Case { prog: pi, seq });
        }
    }
    // shortest event files first across all programs, so that a wall cap cuts the long files of
    // the big alphabets rather than whole programs
    v.sort_by_key(|c| c.seq.len());
    v
}

pub fn run(args: &Args) -> ! {
    let mut rep = Report::new(args, "exploration");
    let bin = binary();
    let base_dir = mc::scratch_dir("C18");

    if let Some(path) = &args.replay {
        let case = mc::load_replay(path);
        let prog = PROGS.iter().position(|p| Some(p.name) == case["program"].as_str()).unwrap_or_else(|| mc::machinery_error("replay: unknown program"));
        let seq: Vec<usize> = case["events"].as_array().map(|a| a.iter().map(|x| x.as_u64().unwrap_or(0) as usize).collect()).unwrap_or_default();
        let mode = MODES.iter().position(|m| Some(*m) == case["mode"].as_str()).unwrap_or(0);
        let n = case["workers"].as_u64().unwrap_or(2) as usize;
        let m = Mismatch { case: Case { prog, seq }, mode, n, desc: String::new() };
        let mut acc = Acc::default();
        let results: Vec<(bool, String)> = (0..3).map(|k| rerun(&bin, &base_dir, &m, k)).collect();
        acc.evaluations += 6;
        for (k, (bad, d)) in results.iter().enumerate() {
            println!("REPLAY run {}: {} — {d}", k + 1, if *bad { "MISMATCH" } else { "equal" });
        }
        if results.iter().all(|r| r.0) {
            acc.viol.add(format!("C18:{}:{}", PROGS[prog].name, MODES[mode]), format!("program {} ({}), {} mode, {} workers: {}", PROGS[prog].name, PROGS[prog].kind, MODES[mode], n, results[0].1), case_json(&m.case, mode, n), m.case.seq.len());
        } else if results.iter().any(|r| r.0) {
            let _ = std::fs::remove_dir_all(&base_dir);
            mc::machinery_error("the mismatch reproduces only sometimes: machinery noise (output drain timing of the binary), no verdict");
        }
        rep.absorb(acc);
        let _ = std::fs::remove_dir_all(&base_dir);
        rep.finish();
    }

    let ns: Vec<usize> = args.tier.pick(vec![1, 2, 3], (1..=8).collect());
    let list = cases(args.tier);
    let deadline = crate::common::wall_cap(args, 55, 1050);
    let mismatches: Mutex<Vec<Mismatch>> = Mutex::new(Vec::new());
    // a run of the binary mostly waits (fixed 100 ms drain), so twice as many cases as threads are in flight
    let (acc, done) = mc::par_indices(list.len() as u64, (args.threads * 2).min(32), 1, |i, acc| {
        if deadline.expired() {
            return false;
        }
        let Some(ms) = run_case(&bin, &base_dir, i, &list[i as usize], &ns, &deadline, acc) else { return false };
        acc.count("cases_completed", 1);
        if !ms.is_empty() {
            mismatches.lock().unwrap().extend(ms);
        }
        true
    });
    if !done {
        rep.cap_hit("wall cap during the sweep over (program, event file) cases");
    }
    let mut acc = acc;
    // re-run rule: three times alone, sequentially
    let mut noise: Vec<String> = Vec::new();
    let mut ms = mismatches.into_inner().unwrap();
    ms.sort_by_key(|m| (m.case.seq.len(), m.case.prog, m.mode, m.n));
    let mut confirmed_per_sig: std::collections::BTreeMap<String, usize> = Default::default();
    for (k, m) in ms.iter().enumerate() {
        let sig = format!("C18:{}:{}", PROGS[m.case.prog].name, MODES[m.mode]);
        // a scope that already has three confirmed cases needs no further re-runs; count the rest as cases of it
        if confirmed_per_sig.get(&sig).copied().unwrap_or(0) >= 3 {
            acc.viol.add(sig, m.desc.clone(), case_json(&m.case, m.mode, m.n), m.case.seq.len() * 100 + m.n);
            continue;
        }
        let again: Vec<(bool, String)> = (0..3).map(|r| rerun(&bin, &base_dir, m, (k * 3 + r) as u64)).collect();
        acc.evaluations += 6;
        acc.count("mismatches_rerun", 1);
        if again.iter().all(|r| r.0) {
            *confirmed_per_sig.entry(sig.clone()).or_insert(0) += 1;
            let p = &PROGS[m.case.prog];
            acc.viol.add(
                sig,
                format!("program {} ({}), {} mode, events {:?}: {} workers differ from 1 worker in 4 of 4 runs — {}", p.name, p.kind, MODES[m.mode], m.case.seq.iter().map(|s| format!("{}:{}", p.events[*s].0, p.events[*s].1)).collect::<Vec<_>>(), m.n, again[0].1),
                case_json(&m.case, m.mode, m.n),
                m.case.seq.len() * 100 + m.n,
            );
        } else {
            noise.push(format!("{} {} N={} events {:?}: first run {}, re-runs mismatching {}/3", PROGS[m.case.prog].name, MODES[m.mode], m.n, m.case.seq, m.desc, again.iter().filter(|r| r.0).count()));
        }
    }
    let _ = std::fs::remove_dir_all(&base_dir);
    if !noise.is_empty() {
        mc::machinery_error(&format!("{} mismatch(es) did not reproduce in every re-run (output drain timing of the binary under load): {}", noise.len(), noise.join(" | ")));
    }
    rep.absorb(acc);
    rep.set("cases", json!(list.len()));
    rep.set("worker_counts", json!(ns));
    rep.set("program_sources", json!(PROGS.iter().map(|p| json!({"name": p.name, "kind": p.kind, "source": p.src})).collect::<Vec<_>>()));
    for c in [list.first(), list.get(list.len() / 2), list.last()].into_iter().flatten() {
        rep.sample(json!({"program": PROGS[c.prog].name, "event_file": event_file(&PROGS[c.prog], &c.seq)}));
    }
    rep.rule = format!(
        "Exhaustive over the stated case list: 2 stateless programs (filter+emit; two chained filter streams) × one event file per length 1..={}, 6 keyed programs (partition_by(k) + count window 2 + aggregate; partitioned sequence E→E; partitioned sequence A→B; and the same three over alphabets containing events without the key field k, every file of length 1..=3 (quick) / 1..=5 (thorough)) × every event file over the program's event alphabet (E×{{x,y,z}}: {}; {{A,B}}×{{x,y}}: {}) plus every {}-symbol block repeated to {} events; for every case and both modes (streaming, --preload) the real binary is run with N = 1 and with every N in {:?} and the multisets of `OUTPUT EVENT` lines are compared ({} cases). evaluations = runs of the binary. Non-trivial = comparison whose 1-worker run emitted at least one output event.",
        args.tier.pick(8, 12),
        args.tier.pick("length 4 for the window program, length 3 for the sequence program", "lengths 1–5"),
        args.tier.pick("length 3", "lengths 1–4"),
        args.tier.pick(2, 3),
        args.tier.pick(8, 12),
        &ns[1..],
        list.len()
    );
    rep.assume("schedules are not enumerated: workers share only the output channel (capacity 1000·N ≫ the bounded outputs) and two counters, so within the bound the multiset is schedule-independent by construction (DESIGN §3 C18)");
    rep.assume("the binary's fixed 100 ms wait for its printer task is a timing assumption of the binary: on a mismatch each side is first completed on its own (printed lines must reach the engines' own output count of a --quiet run of the same command; short observations are repeated and merged by per-line maximum, lines can only be lost); a mismatch counts only when it then reproduces in three further isolated runs; non-reproducing mismatches abort the check as machinery noise (exit 2)");
    rep.assume("keys are strings of one type; event files carry no `@time` prefixes (the streaming reader skips such lines — reader agreement is C46's subject); the partition key is the one the CLI infers (no --partition-by)");
    rep.finish();
}
