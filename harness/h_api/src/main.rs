fn main() {
    let args = mc::parse_args();
    mc::machinery_error(&format!("{} is not built yet", args.prop));
}
