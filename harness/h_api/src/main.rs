//! h_api — CLI server harnesses: C22 (tenant/pipeline metadata survive restarts), C28 (tenant
//! isolation), C44 (event values through the REST API), C31 (accepted paths stay inside the work
//! directory), C18 (multi-worker `varpulis simulate` equals one worker).
//! See DESIGN.md §3 and README-harness.md.

mod c18;
mod c22;
mod c28;
mod c31;
mod c44;
mod common;

fn main() {
    let args = mc::parse_args();
    if std::env::var_os("VERIF_DEBUG_PANICS").is_none() {
        mc::quiet_panics();
    }
    // a panic of the harness itself (self-test, driver) is a machinery error, never a verdict
    let r = mc::catch(|| match args.prop.as_str() {
        "C18" => c18::run(&args),
        "C22" => c22::run(&args),
        "C28" => c28::run(&args),
        "C31" => c31::run(&args),
        "C44" => c44::run(&args),
        other => mc::machinery_error(&format!("h_api serves C18, C22, C28, C31 and C44, not {other}")),
    });
    if let Err(e) = r {
        mc::machinery_error(&format!("harness panicked at {}: {e}", mc::last_panic_location()));
    }
}
