//! C31 — paths accepted by `security::validate_path` stay inside the work directory (DESIGN.md §3).
//!
//! A real directory tree with symlinks (inside, outside, parent, a sibling whose name has the work
//! directory's name as a string prefix, dangling, loop, file links) is built under
//! `mc::scratch_dir("C31")`. Every path of ≤ n segments over the segment alphabet, with every
//! prefix kind (relative, absolute under the work directory, absolute under two outside
//! directories), for two spellings of the work directory (plain, through a symlink) is handed to the
//! real `validate_path`. Oracle: an independent resolver (POSIX path walk, < 80 lines) over the
//! harness's own description of the tree — accepted ⇒ the requested path *and* the returned path
//! resolve to a location under the work directory; as a second, model-free witness the returned file
//! is read through the real filesystem and must carry the "inside" marker.

use mc::{Acc, Args, Report};
use serde_json::json;
use std::collections::{BTreeMap, VecDeque};
use std::path::{Path, PathBuf};
use varpulis_cli::security::{validate_path, SecurityError};

#[derive(Clone, Debug, PartialEq)]
enum Node {
    Dir,
    File(&'static str),
    Link(String),
}

/// (path relative to the scratch root, node); `{R}` in a link target is the canonical scratch root.
fn tree_spec() -> Vec<(&'static str, Node)> {
    use Node::*;
    let l = |s: &str| Link(s.to_string());
    vec![
        ("w", Dir),
        ("w/a", Dir),
        ("w/a/b", Dir),
        ("w/b", Dir),
        ("w/%ff", Dir),
        ("w/f", File("IN")),
        ("w/a/f", File("IN")),
        ("w/a/b/f", File("IN")),
        ("w/b/f", File("IN")),
        ("w/%ff/f", File("IN")),
        ("w/in_link", l("a")),
        ("w/abs_in", l("{R}/w/a/b")),
        ("w/fl_in", l("a/f")),
        ("w/out_link", l("../out")),
        ("w/abs_out", l("{R}/out")),
        ("w/up_link", l("..")),
        ("w/w2_link", l("../w2")),
        ("w/fl_out", l("../out/secret")),
        ("w/loop", l("loop")),
        ("w/dangling", l("nowhere")),
        ("w/a/up", l("../..")),
        ("out", Dir),
        ("out/d", Dir),
        ("out/secret", File("OUT")),
        ("out/back", l("../w")),
        ("w2", Dir),
        ("w2/secret", File("OUT")),
        ("wl", l("w")),
    ]
}

/// segment alphabet, simplest first, with the class used in signatures
const SEGS: [(&str, &str); 23] = [
    ("a", "plain"),
    ("b", "plain"),
    ("f", "plain"),
    (".", "dot"),
    ("..", "dotdot"),
    ("", "empty"),
    ("in_link", "link_inside"),
    ("abs_in", "link_inside"),
    ("fl_in", "link_inside"),
    ("out_link", "link_outside"),
    ("abs_out", "link_outside"),
    ("fl_out", "link_outside"),
    ("w2_link", "link_prefix_sibling"),
    ("up_link", "link_parent"),
    ("up", "link_parent"),
    ("loop", "link_loop"),
    ("dangling", "link_dangling"),
    ("%ff", "percent"),
    ("%2e%2e", "percent"),
    ("back", "outside_name"),
    ("secret", "outside_name"),
    ("out", "outside_name"),
    ("w2", "outside_name"),
];
const PREFIXES: [&str; 4] = ["relative", "abs_workdir", "abs_outside", "abs_prefix_sibling"];
const WORKDIRS: [&str; 2] = ["w", "wl"];

struct Fs {
    root: Vec<String>,
    nodes: BTreeMap<Vec<String>, Node>,
}

#[derive(Clone, Debug, PartialEq)]
enum Res {
    /// existing location (absolute components)
    At(Vec<String>),
    /// every component but the last exists; the last does not (location it would be created at)
    Missing(Vec<String>),
    /// left the described tree (above the scratch root or elsewhere on the machine)
    Elsewhere,
    NotFound,
    NotDir,
    Loop,
}

fn comps(p: &str) -> Vec<String> {
    p.split('/').map(|s| s.to_string()).collect()
}
/// components of a location (no empty components)
fn loc(p: &str) -> Vec<String> {
    p.split('/').filter(|s| !s.is_empty()).map(|s| s.to_string()).collect()
}

impl Fs {
    fn node(&self, abs: &[String]) -> Option<Node> {
        if abs.len() < self.root.len() {
            return if self.root.starts_with(abs) { Some(Node::Dir) } else { None };
        }
        if !abs.starts_with(&self.root) {
            return None;
        }
        if abs.len() == self.root.len() {
            return Some(Node::Dir);
        }
        self.nodes.get(&abs[self.root.len()..].to_vec()).cloned()
    }
    fn known(&self, abs: &[String]) -> bool {
        abs.starts_with(&self.root) || self.root.starts_with(abs)
    }
    /// POSIX resolution of `path` (absolute, or relative to the absolute `cwd`, itself resolved first).
    fn resolve(&self, path: &str, cwd: &str) -> Res {
        let full = if path.starts_with('/') { path.to_string() } else { format!("{cwd}/{path}") };
        let mut queue: VecDeque<String> = comps(&full).into();
        let mut cur: Vec<String> = Vec::new();
        let mut hops = 0;
        while let Some(c) = queue.pop_front() {
            // every step happens in a directory
            match self.node(&cur) {
                Some(Node::Dir) => {}
                Some(_) => return Res::NotDir,
                None => return Res::Elsewhere,
            }
            if c.is_empty() || c == "." {
                continue;
            }
            if c == ".." {
                cur.pop();
                if !self.known(&cur) {
                    return Res::Elsewhere;
                }
                continue;
            }
            let mut next = cur.clone();
            next.push(c);
            if !self.known(&next) {
                return Res::Elsewhere;
            }
            match self.node(&next) {
                None => return if queue.is_empty() { Res::Missing(next) } else { Res::NotFound },
                Some(Node::Dir) | Some(Node::File(_)) => cur = next,
                Some(Node::Link(t)) => {
                    hops += 1;
                    if hops > 40 {
                        return Res::Loop;
                    }
                    if t.starts_with('/') {
                        cur.clear();
                    }
                    for (i, tc) in comps(&t).into_iter().enumerate() {
                        queue.insert(i, tc);
                    }
                }
            }
        }
        if cur.len() < self.root.len() {
            return Res::Elsewhere;
        }
        Res::At(cur)
    }
}

fn build_tree(root: &Path) -> Fs {
    let r = root.to_str().unwrap_or_else(|| mc::machinery_error("scratch root is not UTF-8")).to_string();
    let mut nodes = BTreeMap::new();
    for (rel, node) in tree_spec() {
        let p = root.join(rel);
        let node = match node {
            Node::Link(t) => Node::Link(t.replace("{R}", &r)),
            n => n,
        };
        let res = match &node {
            Node::Dir => std::fs::create_dir_all(&p),
            Node::File(marker) => std::fs::write(&p, format!("{marker}:{rel}")),
            Node::Link(t) => std::os::unix::fs::symlink(t, &p),
        };
        if let Err(e) = res {
            mc::machinery_error(&format!("building the C31 tree: {rel}: {e}"));
        }
        nodes.insert(loc(rel), node);
    }
    Fs { root: loc(&r), nodes }
}

#[derive(Clone, Debug)]
struct Case {
    workdir: usize,
    prefix: usize,
    segs: Vec<usize>,
}

fn case_path(root: &str, c: &Case) -> String {
    let body = c.segs.iter().map(|s| SEGS[*s].0).collect::<Vec<_>>().join("/");
    let pre = match c.prefix {
        0 => return body,
        1 => format!("{root}/{}", WORKDIRS[c.workdir]),
        2 => format!("{root}/out"),
        _ => format!("{root}/w2"),
    };
    if c.segs.is_empty() {
        pre
    } else {
        format!("{pre}/{body}")
    }
}

fn signature(c: &Case, what: &str) -> String {
    let mut cl: Vec<&str> = c.segs.iter().map(|s| SEGS[*s].1).filter(|k| *k != "plain").collect();
    cl.sort();
    cl.dedup();
    let cl = if cl.is_empty() { "plain".to_string() } else { cl.join("+") };
    format!("C31:{}:{}:{what}", PREFIXES[c.prefix], cl)
}

fn join_abs(c: &[String]) -> String {
    format!("/{}", c.join("/"))
}

fn run_case(fs: &Fs, root: &str, c: &Case, acc: &mut Acc, verbose: bool) {
    let workdir = format!("{root}/{}", WORKDIRS[c.workdir]);
    let inside = {
        let mut w = fs.root.clone();
        w.push("w".into());
        w
    };
    let path = case_path(root, c);
    let got = mc::catch(|| validate_path(&path, Path::new(&workdir)));
    acc.evaluations += 1;
    let model = fs.resolve(&path, &workdir);
    let special = c.segs.iter().any(|s| SEGS[*s].1 != "plain") || c.prefix >= 2;
    if special && matches!(model, Res::At(_)) {
        acc.nontrivial += 1;
    }
    let case = json!({"workdir": WORKDIRS[c.workdir], "prefix": PREFIXES[c.prefix], "segments": c.segs, "path_relative_to_scratch_root": path.replace(root, "{R}")});
    let shown = path.replace(root, "{R}");
    let size = c.segs.len();
    let got = match got {
        Ok(g) => g,
        Err(p) => {
            acc.viol.add(signature(c, "panic"), format!("validate_path({shown:?}, {{R}}/{}) panicked: {p}", WORKDIRS[c.workdir]), case, size);
            return;
        }
    };
    if verbose {
        println!("REPLAY validate_path({shown:?}, {{R}}/{}) -> {:?}; resolver: {:?}", WORKDIRS[c.workdir], got.as_ref().map(|p| p.display().to_string().replace(root, "{R}")), model);
    }
    match &got {
        Ok(ret) => {
            acc.count("accepted", 1);
            acc.outcome(&("ok", ret));
            // (1) the requested path resolves under the work directory
            let bad = match &model {
                Res::At(loc) | Res::Missing(loc) => {
                    if loc.starts_with(&inside) {
                        None
                    } else {
                        Some(format!("the path resolves to {} which is outside", join_abs(loc).replace(root, "{R}")))
                    }
                }
                other => Some(format!("the path does not resolve inside the tree ({other:?})")),
            };
            if let Some(b) = bad {
                acc.viol.add(signature(c, "accepted_outside"), format!("validate_path({shown:?}, workdir {{R}}/{}) accepted (returned {}), but {b}", WORKDIRS[c.workdir], ret.display().to_string().replace(root, "{R}")), case.clone(), size);
            }
            // (2) the path handed back (the one the server then opens) resolves under the work directory
            let ret_s = ret.to_string_lossy().to_string();
            match fs.resolve(&ret_s, &workdir) {
                Res::At(loc) | Res::Missing(loc) if loc.starts_with(&inside) => {}
                other => acc.viol.add(signature(c, "returned_path_outside"), format!("validate_path({shown:?}) returned {} which resolves to {other:?}", ret_s.replace(root, "{R}")), case.clone(), size),
            }
            // (3) model-free witness: what the server would read there
            if ret.is_file() {
                match std::fs::read_to_string(ret) {
                    Ok(s) if s.starts_with("IN:") => {}
                    other => acc.viol.add(signature(c, "reads_outside_file"), format!("validate_path({shown:?}) returned {}; reading it gives {other:?} (files inside the work directory start with IN:)", ret_s.replace(root, "{R}")), case, size),
                }
            }
        }
        Err(SecurityError::PathTraversal { .. }) => {
            acc.count("rejected_traversal", 1);
            acc.outcome(&"traversal");
            if matches!(&model, Res::At(loc) if loc.starts_with(&inside)) {
                acc.count("rejected_although_inside", 1);
            }
        }
        Err(_) => {
            acc.count("rejected_invalid", 1);
            acc.outcome(&"invalid");
            if matches!(&model, Res::At(loc) if loc.starts_with(&inside)) {
                acc.count("rejected_although_inside", 1);
            }
        }
    }
}

fn self_test(fs: &Fs, root: &str) {
    let w = format!("{root}/w");
    let at = |rel: &str| Res::At(loc(&format!("{root}/{rel}")));
    assert_eq!(fs.resolve("a/f", &w), at("w/a/f"));
    assert_eq!(fs.resolve("in_link/b/../f", &w), at("w/a/f"));
    assert_eq!(fs.resolve("out_link/secret", &w), at("out/secret"));
    assert_eq!(fs.resolve("out_link/back/a", &w), at("w/a"));
    assert_eq!(fs.resolve("a/up/w2/secret", &w), at("w2/secret"));
    assert_eq!(fs.resolve("up_link/..", &w), Res::Elsewhere);
    assert_eq!(fs.resolve(&format!("up_link/../{}/w/b", fs.root.last().unwrap()), &w), at("w/b"));
    assert_eq!(fs.resolve("loop", &w), Res::Loop);
    assert_eq!(fs.resolve("dangling", &w), Res::Missing(loc(&format!("{root}/w/nowhere"))));
    assert_eq!(fs.resolve("f/.", &w), Res::NotDir);
    assert_eq!(fs.resolve("nope/x", &w), Res::NotFound);
    assert_eq!(fs.resolve("a//b/", &format!("{root}/wl")), at("w/a/b"));
    assert_eq!(fs.resolve("/etc/passwd", &w), Res::Elsewhere);
    assert_eq!(fs.resolve(&format!("{root}/w2/secret"), &w), at("w2/secret"));
    // the model agrees with the operating system on every single-segment path
    for (i, (s, _)) in SEGS.iter().enumerate() {
        let real = std::fs::canonicalize(Path::new(&w).join(s));
        let m = fs.resolve(s, &w);
        match (&real, &m) {
            (Ok(p), Res::At(loc)) => assert_eq!(p, &PathBuf::from(join_abs(loc)), "segment {i}"),
            (Err(_), Res::At(_)) | (Ok(_), _) => panic!("resolver and OS disagree on {s:?}: {real:?} vs {m:?}"),
            _ => {}
        }
    }
}

pub fn run(args: &Args) -> ! {
    let mut rep = Report::new(args, "exploration");
    let scratch = mc::scratch_dir("C31");
    let root_p = scratch.canonicalize().unwrap_or_else(|e| mc::machinery_error(&format!("scratch dir: {e}")));
    let root = root_p.to_str().unwrap_or_else(|| mc::machinery_error("scratch root is not UTF-8")).to_string();
    let fs = build_tree(&root_p);
    self_test(&fs, &root);

    if let Some(path) = &args.replay {
        let case = mc::load_replay(path);
        let idx = |k: &str, names: &[&str]| names.iter().position(|n| Some(*n) == case[k].as_str()).unwrap_or_else(|| mc::machinery_error(&format!("replay: bad {k}")));
        let c = Case {
            workdir: idx("workdir", &WORKDIRS),
            prefix: idx("prefix", &PREFIXES),
            segs: case["segments"].as_array().map(|a| a.iter().map(|v| v.as_u64().unwrap_or(0) as usize).collect()).unwrap_or_default(),
        };
        let mut acc = Acc::default();
        run_case(&fs, &root, &c, &mut acc, true);
        rep.absorb(acc);
        let _ = std::fs::remove_dir_all(&scratch);
        rep.finish();
    }

    let max_len = args.tier.pick(4usize, 5usize);
    let deadline = crate::common::wall_cap(args, 35, 1100);
    let space = mc::SeqSpace::new(SEGS.len(), 0, max_len);
    let variants = (PREFIXES.len() * WORKDIRS.len()) as u64;
    let total = space.total() * variants;
    let (acc, done) = mc::par_indices(total, args.threads, 2048, |i, acc| {
        if i % 2048 == 0 && deadline.expired() {
            return false;
        }
        let mut segs = Vec::new();
        space.decode(i / variants, &mut segs);
        let v = (i % variants) as usize;
        let c = Case { workdir: v / PREFIXES.len(), prefix: v % PREFIXES.len(), segs };
        run_case(&fs, &root, &c, acc, false);
        if i == total / 3 || i == total - 1 {
            acc.samples.push(json!({"workdir": WORKDIRS[c.workdir], "path": case_path("{R}", &c)}));
        }
        true
    });
    if !done {
        rep.cap_hit(&format!("wall cap during the path sweep (≤ {max_len} segments)"));
    }
    rep.absorb(acc);
    rep.sample(json!({"workdir": "w", "path": "a/up/w2/secret", "resolves_to": "{R}/w2/secret (outside: sibling whose name extends the work directory's name)"}));
    rep.set("paths", json!(total));
    rep.set("segment_alphabet", json!(SEGS.iter().map(|s| s.0).collect::<Vec<_>>()));
    rep.set("tree", json!(tree_spec().iter().map(|(p, n)| format!("{p}: {n:?}")).collect::<Vec<_>>()));
    rep.rule = format!(
        "Exhaustive: every path of 0..={max_len} segments over the {}-segment alphabet (plain names, '.', '..', empty segment, symlinks to inside / outside (relative and absolute) / parent / a sibling directory named <workdir>2 / a file outside / itself / nothing, percent-encoded-looking names, names that only exist outside) × 4 prefix kinds (relative, absolute under the work directory, absolute under {{R}}/out, absolute under {{R}}/w2) × 2 spellings of the work directory ({{R}}/w and the symlink {{R}}/wl → w) = {} calls of the real validate_path on a real tree. Non-trivial = the path uses at least one non-plain segment or an outside prefix and resolves to an existing location (so only the containment test decides).",
        SEGS.len(),
        total
    );
    rep.assume("the property is one-directional: rejected paths are not judged (the number rejected although the resolver places them inside is reported as rejected_although_inside)");
    rep.assume("validate_path takes &str, so genuinely non-UTF-8 names cannot be passed; percent-encoded-looking names (%ff, %2e%2e) stand in for them as literal names");
    rep.assume("the tree is static during a call (no concurrent renames: time-of-check/time-of-use races are outside this check)");
    rep.assume("locations above the scratch root are treated as 'elsewhere' by the resolver: acceptance of any such path is reported");
    let _ = std::fs::remove_dir_all(&scratch);
    rep.finish();
}
