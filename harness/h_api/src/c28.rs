//! C28 — tenants cannot see or affect each other's pipelines (DESIGN.md §3).
//!
//! Drives the real route tree (`api_routes` incl. `tenant_admin_routes`) through `warp::test`.
//! Fixed setup: 2 (or 3) tenants created through the admin API, one pipeline each (distinct names,
//! sources, output markers), a different number of events injected into each, one checkpoint taken by
//! each owner. Then every request history up to the bound over the alphabet
//!   endpoint ∈ {list, get, usage, metrics, checkpoint, logs, inject, inject-batch, deploy, reload,
//!               restore, delete} × key ∈ {each tenant's key, none, garbage}
//!            × pipeline id ∈ {each tenant's pipeline, unknown}
//! is replayed on a fresh server. Oracles, for every request carrying a valid key of tenant X:
//!  (a) the projection of every other tenant Y (pipelines, sources, statuses, usage counters, engine
//!      counters and checkpoint, pending outputs) is the same before and after the request;
//!  (b) the response never contains Y's names, sources, output markers, key, tenant id or pipeline ids
//!      (except an id X itself put in the URL, which error bodies echo); an event stream handed to X
//!      never delivers Y's events;
//!  (c) purge differential (no hand-written expectation): X's responses and X's final projection are
//!      identical to those of the same history with every request *not* authenticated as X removed.

use crate::common::{drain_stream, routes, send, Resp, Routes, ADMIN};
use mc::{Acc, Args, Report};
use serde_json::{json, Value as J};
use std::collections::HashMap;
use std::sync::{Arc, Mutex};
use varpulis_runtime::tenant::{SharedTenantManager, TenantId};

const TOKENS: [&str; 3] = ["tenantalpha", "tenantbeta", "tenantgamma"];
const UNKNOWN_PID: &str = "00000000-0000-4000-8000-000000000000";
const GARBAGE_KEY: &str = "not-a-key";

#[derive(Clone, Copy, Debug, PartialEq, Eq, Hash)]
enum Ep {
    List,
    Get,
    Usage,
    Metrics,
    Checkpoint,
    Logs,
    Inject,
    InjectBatch,
    Deploy,
    Reload,
    Restore,
    Delete,
}
const EPS: [Ep; 12] = [Ep::List, Ep::Get, Ep::Usage, Ep::Metrics, Ep::Checkpoint, Ep::Logs, Ep::Inject, Ep::InjectBatch, Ep::Deploy, Ep::Reload, Ep::Restore, Ep::Delete];
impl Ep {
    fn name(self) -> &'static str {
        match self {
            Ep::List => "list",
            Ep::Get => "get",
            Ep::Usage => "usage",
            Ep::Metrics => "metrics",
            Ep::Checkpoint => "checkpoint",
            Ep::Logs => "logs",
            Ep::Inject => "inject",
            Ep::InjectBatch => "inject_batch",
            Ep::Deploy => "deploy",
            Ep::Reload => "reload",
            Ep::Restore => "restore",
            Ep::Delete => "delete",
        }
    }
    fn has_pid(self) -> bool {
        !matches!(self, Ep::List | Ep::Usage | Ep::Deploy)
    }
}

#[derive(Clone, Copy, Debug, PartialEq, Eq, Hash)]
enum Key {
    Tenant(usize),
    None,
    Garbage,
}
#[derive(Clone, Copy, Debug, PartialEq, Eq, Hash)]
enum Pid {
    Of(usize),
    Unknown,
    NotApplicable,
}
#[derive(Clone, Copy, Debug, PartialEq, Eq, Hash)]
struct Sym {
    ep: Ep,
    key: Key,
    pid: Pid,
}
impl Sym {
    fn show(&self) -> String {
        let k = match self.key {
            Key::Tenant(t) => format!("key of {}", TOKENS[t]),
            Key::None => "no key".into(),
            Key::Garbage => "garbage key".into(),
        };
        let p = match self.pid {
            Pid::Of(t) => format!(" pipeline of {}", TOKENS[t]),
            Pid::Unknown => " unknown pipeline id".into(),
            Pid::NotApplicable => String::new(),
        };
        format!("{}{} [{}]", self.ep.name(), p, k)
    }
    /// relation between the caller and the addressed pipeline (signature component)
    fn rel(&self) -> &'static str {
        match (self.key, self.pid) {
            (_, Pid::NotApplicable) => "no_pipeline_id",
            (_, Pid::Unknown) => "unknown_pipeline",
            (Key::Tenant(x), Pid::Of(y)) if x == y => "own_pipeline",
            _ => "foreign_pipeline",
        }
    }
}

fn alphabet(nt: usize) -> Vec<Sym> {
    let mut keys: Vec<Key> = (0..nt).map(Key::Tenant).collect();
    keys.push(Key::None);
    keys.push(Key::Garbage);
    let mut pids: Vec<Pid> = (0..nt).map(Pid::Of).collect();
    pids.push(Pid::Unknown);
    let mut v = Vec::new();
    for ep in EPS {
        for key in &keys {
            if ep.has_pid() {
                for pid in &pids {
                    v.push(Sym { ep, key: *key, pid: *pid });
                }
            } else {
                v.push(Sym { ep, key: *key, pid: Pid::NotApplicable });
            }
        }
    }
    v
}

fn source(stream: &str, marker: &str) -> String {
    format!("stream {stream} = E\n    .emit(x: x, owner: \"{marker}\")\n")
}

struct TInfo {
    token: &'static str,
    id: String,
    key: String,
    pid: String,
    checkpoint: J,
    new_pids: Vec<String>,
}

struct World {
    mgr: SharedTenantManager,
    routes: Routes,
    t: Vec<TInfo>,
}

impl World {
    /// ids and keys → user-given names (server-generated uuids differ from run to run)
    fn canon(&self, s: &str) -> String {
        let mut out = s.to_string();
        for t in &self.t {
            out = out.replace(&t.id, &format!("<id:{}>", t.token));
            out = out.replace(&t.key, &format!("<key:{}>", t.token));
            out = out.replace(&t.pid, &format!("<pipeline:{}>", t.token));
            for (k, p) in t.new_pids.iter().enumerate() {
                out = out.replace(p, &format!("<pipeline:{}:new{}>", t.token, k + 1));
            }
        }
        out
    }
}

async fn setup(nt: usize) -> World {
    let mgr = varpulis_runtime::tenant::shared_tenant_manager();
    let routes = routes(mgr.clone());
    let mut t = Vec::new();
    for (i, token) in TOKENS.iter().take(nt).enumerate() {
        let fail = |what: &str, r: &Resp| -> ! { mc::machinery_error(&format!("C28 setup: {what} for {token}: HTTP {} {}", r.status, r.text)) };
        let r = send(&routes, "POST", "/api/v1/tenants", &[("x-admin-key", ADMIN)], Some(&json!({"name": token}))).await;
        let (Some(id), Some(key)) = (r.json["id"].as_str(), r.json["api_key"].as_str()) else { fail("create tenant", &r) };
        let (id, key) = (id.to_string(), key.to_string());
        let hdr = [("x-api-key", key.as_str())];
        let r = send(&routes, "POST", "/api/v1/pipelines", &hdr, Some(&json!({"name": "pipe_shared", "source": source(&format!("Out_{token}"), &format!("mark_{token}"))}))).await;
        // every tenant's first pipeline has the SAME name (names are only unique per tenant): anything
        // keyed by pipeline name across tenants then mixes tenants up (added after seeded change C28);
        // sources, markers and output stream names still carry the owner's token for the leak scan
        let Some(pid) = r.json["id"].as_str().map(|s| s.to_string()) else { fail("deploy", &r) };
        // a different number of events per tenant, so usage numbers identify their owner
        for k in 0..=i {
            let r = send(&routes, "POST", &format!("/api/v1/pipelines/{pid}/events"), &hdr, Some(&json!({"event_type": "E", "fields": {"x": 100 + k}}))).await;
            let ok = r.status == 200 && r.json["output_events"].as_array().map(|a| a.len()) == Some(1) && r.text.contains(&format!("mark_{token}"));
            if !ok {
                fail("inject (positive control: the owner must get its own output back)", &r);
            }
        }
        let r = send(&routes, "POST", &format!("/api/v1/pipelines/{pid}/checkpoint"), &hdr, None).await;
        if r.status != 200 || !r.json["checkpoint"].is_object() {
            fail("checkpoint", &r);
        }
        let checkpoint = r.json["checkpoint"].clone();
        t.push(TInfo { token, id, key, pid, checkpoint, new_pids: Vec::new() });
    }
    World { mgr, routes, t }
}

/// Projection of one tenant, read straight from the manager (not through the API under test).
#[derive(Clone, PartialEq, Eq)]
struct Proj {
    head: String,
    /// one entry per pipeline (contains the pipeline id)
    pipes: Vec<String>,
}
impl Proj {
    /// ids replaced by names, pipelines in an order that does not depend on the generated ids
    fn canon(&self, w: &World) -> String {
        let mut ps: Vec<String> = self.pipes.iter().map(|p| w.canon(p)).collect();
        ps.sort();
        format!("{} pipelines=[{}]", w.canon(&self.head), ps.join("; "))
    }
}

async fn projection(w: &World, y: usize) -> Proj {
    let _t = prof::Span::new(prof::PROJ);
    let m = w.mgr.read().await;
    let tid = TenantId::new(&w.t[y].id);
    let Some(t) = m.get_tenant(&tid) else { return Proj { head: "tenant missing".into(), pipes: vec![] } };
    let key_ok = m.get_tenant_by_api_key(&w.t[y].key) == Some(&tid);
    let mut pipes = Vec::new();
    for (pid, p) in &t.pipelines {
        let eng = p.engine.lock().await;
        let (ev_in, ev_out) = eng.event_counters();
        let ck = serde_json::to_value(eng.create_checkpoint()).map(|v| mc::sorted_json(&v).to_string()).unwrap_or_default();
        pipes.push(format!("{pid}: name={} source={:?} status={} pending_outputs={} engine_in={ev_in} engine_out={ev_out} engine_state={ck}", p.name, p.source, p.status, p.output_rx.len()));
    }
    pipes.sort();
    let head = format!(
        "name={} key_ok={key_ok} quota={}/{}/{} usage: events_processed={} output_events_emitted={} active_pipelines={}",
        t.name, t.quota.max_pipelines, t.quota.max_events_per_second, t.quota.max_streams_per_pipeline, t.usage.events_processed, t.usage.output_events_emitted, t.usage.active_pipelines
    );
    Proj { head, pipes }
}

/// optional wall-time breakdown (VERIF_PROFILE=1), for tuning the bounds
mod prof {
    use std::sync::atomic::{AtomicU64, Ordering};
    use std::time::Instant;
    pub const SETUP: usize = 0;
    pub const ISSUE: usize = 1;
    pub const PROJ: usize = 2;
    pub const CANON: usize = 3;
    pub const RUNTIME: usize = 4;
    pub static NS: [AtomicU64; 5] = [AtomicU64::new(0), AtomicU64::new(0), AtomicU64::new(0), AtomicU64::new(0), AtomicU64::new(0)];
    pub struct Span(usize, Instant);
    impl Span {
        pub fn new(k: usize) -> Self {
            Span(k, Instant::now())
        }
    }
    impl Drop for Span {
        fn drop(&mut self) {
            NS[self.0].fetch_add(self.1.elapsed().as_nanos() as u64, Ordering::Relaxed);
        }
    }
    pub fn report() {
        if std::env::var_os("VERIF_PROFILE").is_some() {
            let names = ["setup", "issue", "projection", "canon", "run_history_total"];
            for (n, v) in names.iter().zip(NS.iter()) {
                eprintln!("PROFILE {n}: {:.2}s (summed over threads)", v.load(Ordering::Relaxed) as f64 / 1e9);
            }
        }
    }
}

fn pid_of(w: &World, p: Pid) -> String {
    match p {
        Pid::Of(t) => w.t[t].pid.clone(),
        _ => UNKNOWN_PID.to_string(),
    }
}

async fn issue(w: &World, s: &Sym) -> Resp {
    let caller = match s.key {
        Key::Tenant(x) => w.t[x].token,
        _ => "nobody",
    };
    let key: Option<String> = match s.key {
        Key::Tenant(x) => Some(w.t[x].key.clone()),
        Key::None => None,
        Key::Garbage => Some(GARBAGE_KEY.to_string()),
    };
    let hdr: Vec<(&str, &str)> = key.iter().map(|k| ("x-api-key", k.as_str())).collect();
    let pid = pid_of(w, s.pid);
    let ev = |x: i64| json!({"event_type": "E", "fields": {"x": x}});
    let r = &w.routes;
    match s.ep {
        Ep::List => send(r, "GET", "/api/v1/pipelines", &hdr, None).await,
        Ep::Usage => send(r, "GET", "/api/v1/usage", &hdr, None).await,
        Ep::Get => send(r, "GET", &format!("/api/v1/pipelines/{pid}"), &hdr, None).await,
        Ep::Metrics => send(r, "GET", &format!("/api/v1/pipelines/{pid}/metrics"), &hdr, None).await,
        Ep::Checkpoint => send(r, "POST", &format!("/api/v1/pipelines/{pid}/checkpoint"), &hdr, None).await,
        Ep::Logs => send(r, "GET", &format!("/api/v1/pipelines/{pid}/logs"), &hdr, None).await,
        Ep::Inject => send(r, "POST", &format!("/api/v1/pipelines/{pid}/events"), &hdr, Some(&ev(7))).await,
        Ep::InjectBatch => send(r, "POST", &format!("/api/v1/pipelines/{pid}/events-batch"), &hdr, Some(&json!({"events": [ev(8), ev(9)]}))).await,
        Ep::Deploy => send(r, "POST", "/api/v1/pipelines", &hdr, Some(&json!({"name": format!("new_{caller}"), "source": source(&format!("New_{caller}"), &format!("mark_{caller}"))}))).await,
        Ep::Reload => send(r, "POST", &format!("/api/v1/pipelines/{pid}/reload"), &hdr, Some(&json!({"source": source(&format!("Out_{caller}"), &format!("reloaded_{caller}"))}))).await,
        Ep::Restore => {
            let ck = match s.key {
                Key::Tenant(x) => &w.t[x].checkpoint,
                _ => &w.t[0].checkpoint,
            };
            send(r, "POST", &format!("/api/v1/pipelines/{pid}/restore"), &hdr, Some(&json!({"checkpoint": ck}))).await
        }
        Ep::Delete => send(r, "DELETE", &format!("/api/v1/pipelines/{pid}"), &hdr, None).await,
    }
}

fn strip_volatile(v: &mut J) {
    match v {
        J::Object(m) => {
            m.remove("uptime_secs");
            m.remove("processing_time_us");
            for x in m.values_mut() {
                strip_volatile(x);
            }
            if let Some(J::Array(a)) = m.get_mut("pipelines") {
                a.sort_by_key(|p| p.to_string());
            }
        }
        J::Array(a) => a.iter_mut().for_each(strip_volatile),
        _ => {}
    }
}

/// status + body with ids canonicalised and wall-clock fields removed
fn canon_response(w: &World, r: &Resp) -> String {
    let text = w.canon(&r.text);
    let body = match serde_json::from_str::<J>(&text) {
        Ok(mut v) => {
            strip_volatile(&mut v);
            mc::sorted_json(&v).to_string()
        }
        Err(_) => text,
    };
    format!("HTTP {} {}{}", r.status, body, if r.stream.is_some() { " +event-stream" } else { "" })
}

struct RunResult {
    /// canonical response per step
    responses: Vec<String>,
    statuses: Vec<u16>,
    /// canonical final projection per tenant
    final_proj: Vec<String>,
}

fn case_json(nt: usize, hist: &[usize], alpha: &[Sym]) -> J {
    json!({"tenants": nt, "history": hist, "readable": hist.iter().map(|i| alpha[*i].show()).collect::<Vec<_>>()})
}

/// Replay one history on a fresh server. With `acc`, oracles (a) and (b) are evaluated at every step.
async fn run_history(nt: usize, alpha: &[Sym], hist: &[usize], mut acc: Option<&mut Acc>, verbose: bool) -> RunResult {
    let _total = prof::Span::new(prof::RUNTIME);
    let mut w = {
        let _t = prof::Span::new(prof::SETUP);
        setup(nt).await
    };
    let mut out = RunResult { responses: Vec::new(), statuses: Vec::new(), final_proj: Vec::new() };
    let mut held: Vec<(usize, usize, warp::hyper::Body)> = Vec::new();
    let readable = || hist.iter().map(|i| alpha[*i].show()).collect::<Vec<_>>().join(" → ");
    for (step, si) in hist.iter().enumerate() {
        let s = alpha[*si];
        let mut before = Vec::new();
        if acc.is_some() {
            for y in 0..nt {
                before.push(projection(&w, y).await);
            }
        }
        let mut r = {
            let _t = prof::Span::new(prof::ISSUE);
            issue(&w, &s).await
        };
        if let (Ep::Deploy, Key::Tenant(x), true) = (s.ep, s.key, r.ok()) {
            if let Some(id) = r.json["id"].as_str() {
                w.t[x].new_pids.push(id.to_string());
            }
        }
        let canon = {
            let _t = prof::Span::new(prof::CANON);
            canon_response(&w, &r)
        };
        if verbose {
            println!("REPLAY step {}: {} -> {}", step + 1, s.show(), if canon.len() > 400 { format!("{}…", &canon[..400]) } else { canon.clone() });
        }
        if let (Some(acc), Key::Tenant(x)) = (acc.as_deref_mut(), s.key) {
            acc.count("requests_with_a_valid_key", 1);
            if r.ok() {
                acc.count(&format!("answered_2xx_{}_{}", s.ep.name(), s.rel()), 1);
            }
            let lower = r.text.to_lowercase();
            let url_pid = if s.ep.has_pid() { pid_of(&w, s.pid) } else { String::new() };
            for y in (0..nt).filter(|y| *y != x) {
                // (a) Y's projection unchanged
                let after = projection(&w, y).await;
                if after != before[y] {
                    acc.viol.add(
                        format!("C28:{}:{}:foreign_state_changed", s.ep.name(), s.rel()),
                        format!("[{}] step {}: a request with the key of {} changed the state of {}: before {} / after {}", readable(), step + 1, TOKENS[x], TOKENS[y], before[y].canon(&w), after.canon(&w)),
                        case_json(nt, hist, alpha),
                        hist.len(),
                    );
                }
                // (b) nothing of Y in the response to X
                let ty = &w.t[y];
                let mut leaked: Vec<String> = Vec::new();
                if lower.contains(ty.token) {
                    leaked.push(format!("the name/source/marker token {:?}", ty.token));
                }
                for (what, val) in [("tenant id", &ty.id), ("API key", &ty.key)] {
                    if r.text.contains(val.as_str()) {
                        leaked.push(format!("the {what} of {}", ty.token));
                    }
                }
                for p in std::iter::once(&ty.pid).chain(ty.new_pids.iter()) {
                    if *p != url_pid && r.text.contains(p.as_str()) {
                        leaked.push(format!("a pipeline id of {} that the caller did not supply", ty.token));
                    }
                }
                if !leaked.is_empty() {
                    acc.viol.add(
                        format!("C28:{}:{}:response_names_foreign_data", s.ep.name(), s.rel()),
                        format!("[{}] step {}: the response to {} contains {}: {}", readable(), step + 1, TOKENS[x], leaked.join(", "), w.canon(&r.text)),
                        case_json(nt, hist, alpha),
                        hist.len(),
                    );
                }
            }
            if let Some(body) = r.stream.take() {
                held.push((x, step, body));
            }
        }
        out.statuses.push(r.status);
        out.responses.push(canon);
    }
    for y in 0..nt {
        let p = projection(&w, y).await;
        out.final_proj.push(p.canon(&w));
    }
    // epilogue for (b): every owner injects one event into each of its pipelines; a stream held by X
    // must not deliver anything of another tenant
    if let Some(acc) = acc.as_deref_mut() {
        if !held.is_empty() {
            for y in 0..nt {
                let pids: Vec<String> = std::iter::once(w.t[y].pid.clone()).chain(w.t[y].new_pids.iter().cloned()).collect();
                for pid in pids {
                    let _ = send(&w.routes, "POST", &format!("/api/v1/pipelines/{pid}/events"), &[("x-api-key", w.t[y].key.as_str())], Some(&json!({"event_type": "E", "fields": {"x": 4242}}))).await;
                }
            }
            for (x, step, mut body) in held {
                let data = drain_stream(&mut body).await.to_lowercase();
                acc.count("event_streams_inspected", 1);
                if data.contains("4242") {
                    acc.count("event_streams_that_delivered_events", 1);
                }
                for y in (0..nt).filter(|y| *y != x) {
                    if data.contains(TOKENS[y]) {
                        let s = alpha[hist[step]];
                        acc.viol.add(
                            format!("C28:{}:{}:stream_delivers_foreign_events", s.ep.name(), s.rel()),
                            format!("[{}] the event stream opened at step {} with the key of {} delivered events of {}: {}", readable(), step + 1, TOKENS[x], TOKENS[y], w.canon(&data)),
                            case_json(nt, hist, alpha),
                            hist.len(),
                        );
                    }
                }
            }
        }
    }
    out
}

type PurgeCache = Mutex<HashMap<(usize, usize, Vec<usize>), Arc<RunResult>>>;

/// One history: direct oracles at every step, then the purge differential per tenant.
fn check_history(nt: usize, alpha: &[Sym], hist: &[usize], cache: &PurgeCache, acc: &mut Acc, verbose: bool) -> RunResult {
    let full = crate::common::block_on(run_history(nt, alpha, hist, Some(acc), verbose));
    acc.evaluations += 1;
    acc.count("requests", hist.len() as u64);
    let cross = hist.iter().any(|i| matches!((alpha[*i].key, alpha[*i].pid), (Key::Tenant(x), Pid::Of(y)) if x != y));
    let callers: Vec<usize> = (0..nt).filter(|x| hist.iter().any(|i| alpha[*i].key == Key::Tenant(*x))).collect();
    if cross || callers.len() >= 2 {
        acc.nontrivial += 1;
    }
    acc.outcome(&full.final_proj);
    acc.outcome(&full.responses);
    for x in 0..nt {
        let mine: Vec<usize> = hist.iter().copied().filter(|i| alpha[*i].key == Key::Tenant(x)).collect();
        if mine.len() == hist.len() {
            continue; // nothing to purge
        }
        let key = (nt, x, mine.clone());
        let cached = cache.lock().unwrap().get(&key).cloned();
        let purged = match cached {
            Some(p) => p,
            None => {
                let p = Arc::new(crate::common::block_on(run_history(nt, alpha, &mine, None, false)));
                acc.count("purged_reference_runs", 1);
                cache.lock().unwrap().insert(key, p.clone());
                p
            }
        };
        acc.count("purge_comparisons", 1);
        let mut k = 0;
        let mut last_other: Option<Sym> = None;
        for (step, i) in hist.iter().enumerate() {
            let s = alpha[*i];
            if s.key != Key::Tenant(x) {
                last_other = Some(s);
                continue;
            }
            if full.responses[step] != purged.responses[k] {
                let o = last_other.map(|o| o.ep.name()).unwrap_or("later_request");
                acc.viol.add(
                    format!("C28:{}:{}:answer_depends_on_others_{o}", s.ep.name(), s.rel()),
                    format!(
                        "[{}] step {}: the answer to {} is {} but without the requests of the other callers it is {}",
                        hist.iter().map(|i| alpha[*i].show()).collect::<Vec<_>>().join(" → "),
                        step + 1,
                        TOKENS[x],
                        full.responses[step],
                        purged.responses[k]
                    ),
                    case_json(nt, hist, alpha),
                    hist.len(),
                );
            }
            k += 1;
        }
        if full.final_proj[x] != purged.final_proj[x] {
            let o = hist.iter().rev().map(|i| alpha[*i]).find(|s| s.key != Key::Tenant(x)).map(|s| format!("{}:{}", s.ep.name(), if s.pid == Pid::Of(x) { "its_pipeline" } else { "other_target" })).unwrap_or_default();
            acc.viol.add(
                format!("C28:final_state:{o}:state_depends_on_others"),
                format!("[{}] final state of {} is {} but without the requests of the other callers it is {}", hist.iter().map(|i| alpha[*i].show()).collect::<Vec<_>>().join(" → "), TOKENS[x], full.final_proj[x], purged.final_proj[x]),
                case_json(nt, hist, alpha),
                hist.len(),
            );
        }
    }
    full
}

fn self_test() {
    let a2 = alphabet(2);
    assert_eq!(a2.len(), 3 * 4 + 9 * 4 * 3);
    assert_eq!(alphabet(3).len(), 3 * 5 + 9 * 5 * 4);
    assert_eq!(a2[0], Sym { ep: Ep::List, key: Key::Tenant(0), pid: Pid::NotApplicable });
    let s = Sym { ep: Ep::Get, key: Key::Tenant(0), pid: Pid::Of(1) };
    assert_eq!(s.rel(), "foreign_pipeline");
    assert_eq!(Sym { ep: Ep::Get, key: Key::Tenant(1), pid: Pid::Of(1) }.rel(), "own_pipeline");
    assert_eq!(Sym { ep: Ep::Usage, key: Key::Tenant(1), pid: Pid::NotApplicable }.rel(), "no_pipeline_id");
    let mut v = json!({"pipelines": [{"name": "b", "uptime_secs": 3}, {"name": "a", "uptime_secs": 9}], "processing_time_us": 5});
    strip_volatile(&mut v);
    assert_eq!(v, json!({"pipelines": [{"name": "a"}, {"name": "b"}]}));
    assert!(crate::common::is_uuid(UNKNOWN_PID) && !crate::common::is_uuid(GARBAGE_KEY));
}

pub fn run(args: &Args) -> ! {
    self_test();
    let mut rep = Report::new(args, "model_checking");
    let cache: PurgeCache = Mutex::new(HashMap::new());

    if let Some(path) = &args.replay {
        let case = mc::load_replay(path);
        let nt = case["tenants"].as_u64().unwrap_or(2) as usize;
        let alpha = alphabet(nt);
        let hist: Vec<usize> = case["history"].as_array().map(|a| a.iter().map(|v| v.as_u64().unwrap_or(0) as usize).collect()).unwrap_or_default();
        let mut acc = Acc::default();
        check_history(nt, &alpha, &hist, &cache, &mut acc, true);
        rep.absorb(acc);
        rep.finish();
    }

    // The sweeps of a tier: (tenants, sub-alphabet, lengths, skip histories without any judged request).
    // `keyed` = the requests that carry a valid tenant key (the only ones the property judges).
    struct Sweep {
        nt: usize,
        keyed_only: bool,
        min_len: usize,
        max_len: usize,
        skip_unjudged: bool,
        what: &'static str,
    }
    let sweeps: Vec<Sweep> = match args.tier {
        mc::Tier::Quick => vec![
            Sweep { nt: 2, keyed_only: false, min_len: 0, max_len: 2, skip_unjudged: true, what: "2 tenants, full 120-request alphabet, length ≤ 2 (length-2 histories in which neither request carries a valid key are skipped)" },
            Sweep { nt: 3, keyed_only: false, min_len: 0, max_len: 1, skip_unjudged: false, what: "3 tenants, full 195-request alphabet, length ≤ 1" },
        ],
        mc::Tier::Thorough => vec![
            Sweep { nt: 2, keyed_only: false, min_len: 0, max_len: 2, skip_unjudged: false, what: "2 tenants, full 120-request alphabet, length ≤ 2" },
            Sweep { nt: 3, keyed_only: false, min_len: 0, max_len: 2, skip_unjudged: false, what: "3 tenants, full 195-request alphabet, length ≤ 2" },
            Sweep { nt: 2, keyed_only: true, min_len: 3, max_len: 3, skip_unjudged: false, what: "2 tenants, the 60 requests that carry a valid key, length 3" },
        ],
    };
    let sub_alphabet = |sw: &Sweep| -> Vec<usize> {
        let alpha = alphabet(sw.nt);
        (0..alpha.len()).filter(|i| !sw.keyed_only || matches!(alpha[*i].key, Key::Tenant(_))).collect()
    };

    // determinism: first and last history of the first sweep, twice each, identical canonical observations
    {
        let sw = &sweeps[0];
        let alpha = alphabet(sw.nt);
        let sub = sub_alphabet(sw);
        let space = mc::SeqSpace::new(sub.len(), sw.min_len, sw.max_len);
        for i in [1, space.total() - 1] {
            let mut h = Vec::new();
            space.decode(i, &mut h);
            let h: Vec<usize> = h.iter().map(|k| sub[*k]).collect();
            let obs: Vec<(Vec<String>, Vec<String>)> = (0..2)
                .map(|_| {
                    let r = crate::common::block_on(run_history(sw.nt, &alpha, &h, None, false));
                    (r.responses, r.final_proj)
                })
                .collect();
            if obs[0] != obs[1] {
                mc::machinery_error(&format!("nondeterministic replay of {:?}: {:?} vs {:?}", h.iter().map(|i| alpha[*i].show()).collect::<Vec<_>>(), obs[0], obs[1]));
            }
            rep.sample(json!({"tenants": sw.nt, "history": h.iter().map(|i| alpha[*i].show()).collect::<Vec<_>>(), "canonical_answers": obs[0].0}));
        }
    }

    let deadline = crate::common::wall_cap(args, 34, 1100);
    let mut states = std::collections::HashSet::new();
    let mut described = Vec::new();
    for sw in &sweeps {
        let alpha = alphabet(sw.nt);
        let sub = sub_alphabet(sw);
        let space = mc::SeqSpace::new(sub.len(), sw.min_len, sw.max_len);
        let total = space.total();
        let finals: Mutex<std::collections::HashSet<u64>> = Mutex::new(Default::default());
        let (acc, done) = mc::par_indices(total, args.threads, 16, |i, acc| {
            if deadline.expired() {
                return false;
            }
            let mut h = Vec::new();
            space.decode(i, &mut h);
            let h: Vec<usize> = h.iter().map(|k| sub[*k]).collect();
            if sw.skip_unjudged && h.len() >= 2 && !h.iter().any(|k| matches!(alpha[*k].key, Key::Tenant(_))) {
                acc.count("skipped_histories_without_a_valid_key", 1);
                return true;
            }
            let r = check_history(sw.nt, &alpha, &h, &cache, acc, false);
            finals.lock().unwrap().insert(mc::hash_of(&r.final_proj));
            if i == total - 1 || i == total / 2 {
                acc.samples.push(json!({"tenants": sw.nt, "history": h.iter().map(|k| alpha[*k].show()).collect::<Vec<_>>(), "statuses": r.statuses}));
            }
            true
        });
        if !done {
            rep.cap_hit(&format!("wall cap during the sweep: {}", sw.what));
        }
        described.push(format!("{} = {} histories", sw.what, total));
        rep.transitions += acc.counts.get("requests").copied().unwrap_or(0);
        states.extend(finals.into_inner().unwrap());
        rep.absorb(acc);
    }
    prof::report();
    rep.states = states.len() as u64;
    rep.traces = rep.evaluations;
    rep.set("sweeps", json!(described));
    rep.rule = format!(
        "Stateless exhaustive enumeration (E2, no state merging) of request histories over the alphabet 12 pipeline endpoints × key ∈ {{each tenant's, none, garbage}} × pipeline id ∈ {{each tenant's, unknown}}; sweeps of this tier: {}. Every history is replayed on a fresh server after the fixed setup. At every request with a valid key: other tenants' projections compared before/after, response scanned for other tenants' names/markers/ids/keys; held event streams inspected after every owner injected a marked event; per tenant the answers and final state are compared with the purged history. Non-trivial = the history contains a request with one tenant's key addressing another tenant's pipeline id, or requests of two different tenants. states = distinct canonical final projections, transitions = requests executed.",
        described.join("; ")
    );
    rep.assume("requests without a key or with a garbage key are part of the histories (they may perturb the server) but their own responses are not judged: the property speaks about requests authenticated with a tenant's key");
    rep.assume("a pipeline id that the caller itself put in the URL may be echoed in an error body (not a leak); ids, keys and tenant ids are server-generated uuids and are canonicalised by the user-given names before comparison");
    rep.assume("wall-clock fields (uptime_secs, processing_time_us) are projected away; pipelines deployed during a history are addressed only by their owner's later list/usage requests (their ids are not in the alphabet)");
    rep.assume("the purge differential treats any dependence of X's answers on other callers' requests as reading/affecting across tenants; the per-tenant rate limit (10 000 events/s) is never reached by these histories");
    rep.finish();
}
