//! C44 — event values keep their types and contents through the REST API (DESIGN.md §3).
//!
//! Drives the real inject / inject-batch handlers (`api_routes` through `warp::test`) with the
//! pass-through pipeline `stream S = E.emit(x: x)`. Space: every JSON value of depth ≤ 2 over the
//! atom list below as the field `x` of one event. Oracle (differential, no expected value written
//! down): the `x` of the returned output event is the injected JSON value, numbers compared exactly
//! (`serde_json::Value` equality distinguishes 9223372036854775808 from 9.223372036854776e18).

use crate::common::{block_on, routes, send, Routes, ADMIN};
use mc::{Acc, Args, Report, Tier};
use serde_json::{json, Value as J};

const SRC: &str = "stream S = E\n    .emit(x: x)\n";
const ENDPOINTS: [&str; 2] = ["inject", "inject_batch"];

fn atoms() -> Vec<J> {
    vec![
        json!(0),
        json!(-1),
        json!(true),
        J::Null,
        json!(""),
        json!("é"),
        json!(0.5),
        json!(1.0),
        json!(i64::MAX),
        json!(i64::MIN),
        json!(1e308),
        // zero, negative zero, the smallest subnormal and the smallest normal float (added after
        // seeded change C44: a finite-float test written with is_normal())
        json!(0.0),
        json!(-0.0),
        json!(5e-324),
        json!(2.2250738585072014e-308),
        json!(-273.15),
        json!([]),
        json!({}),
        json!(9223372036854775808u64),
        json!(u64::MAX),
    ]
}

/// depth ≤ 1: atoms, arrays of 1..=2 atoms, objects with keys a / a,b over atoms
fn depth1() -> Vec<J> {
    let a = atoms();
    let mut v = a.clone();
    for x in &a {
        v.push(json!([x]));
    }
    for x in &a {
        v.push(json!({ "a": x }));
    }
    for x in &a {
        for y in &a {
            v.push(json!([x, y]));
        }
    }
    for x in &a {
        for y in &a {
            v.push(json!({"a": x, "b": y}));
        }
    }
    v
}

/// The enumerated space as an index range: D1 values, then [v] and {"a":v} over D1, then (thorough)
/// [v,w] and {"a":v,"b":w} over D1 × D1.
struct Space {
    d1: Vec<J>,
    pairs: bool,
}
impl Space {
    fn total(&self) -> u64 {
        let n = self.d1.len() as u64;
        3 * n + if self.pairs { 2 * n * n } else { 0 }
    }
    fn value(&self, i: u64) -> J {
        let n = self.d1.len() as u64;
        let d = |k: u64| &self.d1[k as usize];
        if i < n {
            d(i).clone()
        } else if i < 2 * n {
            json!([d(i - n)])
        } else if i < 3 * n {
            json!({ "a": d(i - 2 * n) })
        } else {
            let j = i - 3 * n;
            if j < n * n {
                json!([d(j / n), d(j % n)])
            } else {
                let j = j - n * n;
                json!({"a": d(j / n), "b": d(j % n)})
            }
        }
    }
}

fn leaf_classes(v: &J, out: &mut Vec<&'static str>) {
    match v {
        J::Null => out.push("null"),
        J::Bool(_) => out.push("bool"),
        J::String(_) => out.push("string"),
        J::Number(n) => out.push(if n.is_f64() {
            "float"
        } else if n.as_i64().is_none() {
            "integer_above_i64_max"
        } else if n.as_i64() == Some(i64::MAX) || n.as_i64() == Some(i64::MIN) {
            "integer_i64_boundary"
        } else {
            "small_integer"
        }),
        J::Array(a) if a.is_empty() => out.push("empty_array"),
        J::Object(o) if o.is_empty() => out.push("empty_object"),
        J::Array(a) => a.iter().for_each(|x| leaf_classes(x, out)),
        J::Object(o) => o.values().for_each(|x| leaf_classes(x, out)),
    }
}
fn depth(v: &J) -> usize {
    match v {
        J::Array(a) if !a.is_empty() => 1 + a.iter().map(depth).max().unwrap_or(0),
        J::Object(o) if !o.is_empty() => 1 + o.values().map(depth).max().unwrap_or(0),
        _ => 0, // [] and {} are atoms
    }
}
fn nodes(v: &J) -> usize {
    match v {
        J::Array(a) => 1 + a.iter().map(nodes).sum::<usize>(),
        J::Object(o) => 1 + o.values().map(nodes).sum::<usize>(),
        _ => 1,
    }
}

/// Signature from the injected value only: a value containing an integer above i64::MAX is one scope
/// (the runtime has no unsigned integer); every other value is classified by endpoint, top-level kind
/// and the set of leaf classes it contains.
fn signature(endpoint: &str, v: &J) -> String {
    let mut cl = Vec::new();
    leaf_classes(v, &mut cl);
    cl.sort();
    cl.dedup();
    if cl.contains(&"integer_above_i64_max") {
        return format!("C44:integer_above_i64_max:{endpoint}");
    }
    let top = match v {
        J::Array(a) if !a.is_empty() => "array",
        J::Object(o) if !o.is_empty() => "object",
        _ => "scalar",
    };
    format!("C44:{endpoint}:{top}:{}", cl.join("+"))
}

struct Server {
    routes: Routes,
    key: String,
    pid: String,
    used: u64,
}

async fn new_server() -> Server {
    let mgr = varpulis_runtime::tenant::shared_tenant_manager();
    let routes = routes(mgr);
    let r = send(&routes, "POST", "/api/v1/tenants", &[("x-admin-key", ADMIN)], Some(&json!({"name": "t", "quota_tier": "enterprise"}))).await;
    let key = r.json["api_key"].as_str().unwrap_or_else(|| mc::machinery_error(&format!("create tenant: {} {}", r.status, r.text))).to_string();
    let r = send(&routes, "POST", "/api/v1/pipelines", &[("x-api-key", &key)], Some(&json!({"name": "p", "source": SRC}))).await;
    let pid = r.json["id"].as_str().unwrap_or_else(|| mc::machinery_error(&format!("deploy: {} {}", r.status, r.text))).to_string();
    Server { routes, key, pid, used: 0 }
}

/// One execution: inject `v` as field x through `endpoint`; returns (status, returned x, number of outputs).
async fn roundtrip(s: &mut Server, endpoint: &str, v: &J) -> (u16, Option<J>, usize, String) {
    s.used += 1;
    let ev = json!({"event_type": "E", "fields": {"x": v}});
    if endpoint == "inject" {
        let r = send(&s.routes, "POST", &format!("/api/v1/pipelines/{}/events", s.pid), &[("x-api-key", &s.key)], Some(&ev)).await;
        let outs = r.json["output_events"].as_array().cloned().unwrap_or_default();
        let x = outs.first().and_then(|o| o["fields"].get("x")).cloned();
        (r.status, x, outs.len(), r.text)
    } else {
        let r = send(&s.routes, "POST", &format!("/api/v1/pipelines/{}/events-batch", s.pid), &[("x-api-key", &s.key)], Some(&json!({"events": [ev]}))).await;
        let outs = r.json["output_events"].as_array().cloned().unwrap_or_default();
        let x = outs.first().and_then(|o| o.get("x")).cloned();
        (r.status, x, outs.len(), r.text)
    }
}

fn check(endpoint: &str, v: &J, got: &(u16, Option<J>, usize, String), acc: &mut Acc) {
    acc.evaluations += 1;
    let small = matches!(v, J::Number(n) if n.as_i64().map(|i| (-1..=1).contains(&i)).unwrap_or(false));
    if depth(v) >= 1 || (v.is_number() && !small) {
        acc.nontrivial += 1;
    }
    let (status, x, n_out, text) = got;
    acc.outcome(&(endpoint, x.as_ref().map(|x| x.to_string())));
    if *status == 429 {
        mc::machinery_error("the harness tripped the tenant rate limit (429); lower the per-server request budget");
    }
    let case = json!({"endpoint": endpoint, "value": v});
    let problem = if *status != 200 {
        Some(format!("HTTP {status}: {text}"))
    } else if *n_out != 1 {
        Some(format!("{n_out} output events for one injected event: {text}"))
    } else {
        match x {
            None => Some(format!("the output event has no field x: {text}")),
            Some(x) if x != v => Some(format!("came back as {x}")),
            Some(_) => None,
        }
    };
    if let Some(p) = problem {
        acc.viol.add(signature(endpoint, v), format!("{endpoint} of x = {v} through `stream S = E.emit(x: x)`: {p}"), case, nodes(v));
    }
}

fn self_test() {
    assert_eq!(signature("inject", &json!(u64::MAX)), "C44:integer_above_i64_max:inject");
    assert_eq!(signature("inject", &json!([1, 9223372036854775808u64])), "C44:integer_above_i64_max:inject");
    assert_eq!(signature("inject_batch", &json!({"a": 0.5, "b": "s"})), "C44:inject_batch:object:float+string");
    assert_eq!(signature("inject", &json!(i64::MAX)), "C44:inject:scalar:integer_i64_boundary");
    assert_ne!(json!(9223372036854775808u64), json!(9.223372036854776e18));
    assert_eq!(depth(&json!([[1]])), 2);
    let sp = Space { d1: depth1(), pairs: true };
    assert_eq!(sp.d1.len(), 20 + 20 + 20 + 400 + 400);
    assert_eq!(sp.value(sp.total() - 1), json!({"a": {"a": u64::MAX, "b": u64::MAX}, "b": {"a": u64::MAX, "b": u64::MAX}}));
    assert!((0..sp.total()).step_by(997).all(|i| depth(&sp.value(i)) <= 2));
}

pub fn run(args: &Args) -> ! {
    self_test();
    let mut rep = Report::new(args, "exploration");
    if let Some(path) = &args.replay {
        let case = mc::load_replay(path);
        let endpoint = case["endpoint"].as_str().unwrap_or("inject").to_string();
        let v = case["value"].clone();
        let mut acc = Acc::default();
        let got = block_on(async {
            let mut s = new_server().await;
            roundtrip(&mut s, &endpoint, &v).await
        });
        println!("REPLAY {endpoint} x = {v} -> HTTP {} x = {}", got.0, got.1.as_ref().map(|x| x.to_string()).unwrap_or_else(|| "<absent>".into()));
        check(&endpoint, &v, &got, &mut acc);
        rep.absorb(acc);
        rep.finish();
    }
    let deadline = crate::common::wall_cap(args, 35, 1100);
    let space = Space { d1: depth1(), pairs: args.tier == Tier::Thorough };
    let total = space.total();
    // one server (tenant + pipeline) per chunk of values: a fresh tenant stays far below its
    // events-per-second quota, so no request is refused by rate limiting
    const CHUNK: u64 = 512;
    let chunks = total.div_ceil(CHUNK);
    let (acc, done) = mc::par_indices(chunks, args.threads, 1, |c, acc| {
        if deadline.expired() {
            return false;
        }
        block_on(async {
            let mut s = new_server().await;
            for i in (c * CHUNK)..((c + 1) * CHUNK).min(total) {
                let v = space.value(i);
                for ep in ENDPOINTS {
                    let got = roundtrip(&mut s, ep, &v).await;
                    check(ep, &v, &got, acc);
                }
                if i % 50_000 == 7 {
                    acc.sample(|| json!({"endpoint": "inject", "fields": {"x": v}}));
                }
            }
        });
        true
    });
    if !done {
        rep.cap_hit("wall cap during the value sweep");
    }
    rep.absorb(acc);
    rep.sample(json!({"endpoint": "inject", "fields": {"x": space.value(total / 2)}}));
    rep.sample(json!({"endpoint": "inject_batch", "fields": {"x": space.value(total - 1)}}));
    rep.set("values", json!(total));
    rep.set("atoms", json!(atoms()));
    rep.rule = format!(
        "Exhaustive: every JSON value of depth ≤ 2 built from the {} atoms (0, −1, true, null, \"\", \"é\", 0.5, 1.0, i64::MAX, i64::MIN, 1e308, 0.0, −0.0, 5e-324, f64::MIN_POSITIVE, −273.15, [], {{}}, 2^63, u64::MAX): D1 = atoms, arrays of 1–2 atoms, objects with keys a / a,b ({} values); the space is D1, [v] and {{\"a\":v}} for v in D1{} — {} values, each injected as field x through POST …/events and POST …/events-batch of the real route tree into `stream S = E.emit(x: x)`; the returned x must equal the injected JSON value exactly. Non-trivial = a container, or a number other than 0/±1.",
        atoms().len(),
        space.d1.len(),
        if space.pairs { ", and [v,w] and {\"a\":v,\"b\":w} for all (v,w) in D1×D1" } else { " (pairs of D1 values inside one container: thorough tier only)" },
        total
    );
    rep.assume("JSON text → serde_json::Value parsing of the request body is warp/serde_json (trusted); object key order is not compared (JSON objects are unordered)");
    rep.assume("only values serde_json can represent are injected (no NaN/Infinity, no duplicate keys); strings are limited to \"\" and \"é\"");
    rep.assume("the property's 'processed with field values of the corresponding types' is observed through the pass-through pipeline only (the returned JSON type is the runtime type)");
    rep.finish();
}
