//! C21 — checkpoint storage recovers the newest complete checkpoint after any crash.
//!
//! Drives the real `CheckpointManager::{new, checkpoint, recover}` over the real `FileStore` on one
//! scratch directory per execution. Enumerated (no sampling):
//!   * histories: k saves with a clean restart in any subset of the gaps between saves, for
//!     `max_checkpoints` 1..=3;
//!   * one crash at every fault point of the history (labels learned from a counting run), with every
//!     torn-write variant at the tmp-write point; after the crash everything in memory is dropped, a
//!     fresh store + manager recover, and the history *continues*;
//!   * a second crash at every fault point of that continuation;
//!   * independently: after every operation of the history the newest *renamed* checkpoint file is
//!     made unreadable (0 bytes / first half / same-length garbage) and recovery is attempted through a
//!     restarted manager (`new` + `recover`) and through the live manager (`recover`).
//!
//! Reference model (below, `Model`): the list of checkpoints whose `put` reached the rename.

use mc::{Acc, Args, Deadline, Report};
use serde_json::{json, Value};
use std::collections::BTreeMap;
use std::path::{Path, PathBuf};
use std::sync::Arc;
use std::time::Duration;
use varpulis_runtime::persistence::{Checkpoint, CheckpointConfig, CheckpointManager, FileStore, StateStore};
use varpulis_runtime::verif::fault::{self, Torn, CRASH_PAYLOAD};

// ---------------------------------------------------------------------------------------------
// Case description

#[derive(Clone, Copy, Debug, PartialEq, Eq, Hash)]
enum Op {
    Save,
    Restart,
}

fn hist_str(h: &[Op]) -> String {
    h.iter().map(|o| if *o == Op::Save { 'S' } else { 'R' }).collect()
}
fn hist_parse(s: &str) -> Vec<Op> {
    s.chars()
        .map(|c| match c {
            'S' => Op::Save,
            'R' => Op::Restart,
            other => mc::machinery_error(&format!("bad history symbol {other:?}")),
        })
        .collect()
}

/// All histories with at most `max_saves` saves: saves separated by an optional clean restart
/// (no leading / trailing / doubled restart — those add no new state: every execution already
/// starts with an open and ends with a restart). Shortest first.
fn histories(max_saves: usize) -> Vec<Vec<Op>> {
    let mut out = vec![Vec::new()];
    for k in 1..=max_saves {
        for mask in 0..(1u32 << (k - 1)) {
            let mut h = Vec::new();
            for s in 0..k {
                if s > 0 && mask >> (s - 1) & 1 == 1 {
                    h.push(Op::Restart);
                }
                h.push(Op::Save);
            }
            out.push(h);
        }
    }
    out.sort_by_key(|h| h.len());
    out
}

#[derive(Clone, Copy, Debug, PartialEq, Eq, Hash)]
enum TornK {
    None,
    Zero,
    Half,
    AllButOne,
}
const TORN_ALL: [TornK; 4] = [TornK::None, TornK::Zero, TornK::Half, TornK::AllButOne];
impl TornK {
    fn name(self) -> &'static str {
        match self {
            TornK::None => "none",
            TornK::Zero => "zero",
            TornK::Half => "half",
            TornK::AllButOne => "all_but_one",
        }
    }
    fn parse(s: &str) -> TornK {
        TORN_ALL.iter().copied().find(|t| t.name() == s).unwrap_or_else(|| mc::machinery_error(&format!("bad torn variant {s:?}")))
    }
    fn real(self) -> Torn {
        match self {
            TornK::None => Torn::None,
            TornK::Zero => Torn::Zero,
            TornK::Half => Torn::Half,
            TornK::AllButOne => Torn::AllButOne,
        }
    }
}
/// torn variants that make sense at a fault point: only the tmp write can be torn
fn torn_variants(label: &str) -> &'static [TornK] {
    if label == "put:before_write_tmp" {
        &TORN_ALL
    } else {
        &TORN_ALL[..1]
    }
}

#[derive(Clone, Copy, Debug, PartialEq, Eq, Hash)]
enum CorruptK {
    Zero,
    Half,
    Garbage,
}
const CORRUPT_ALL: [CorruptK; 3] = [CorruptK::Zero, CorruptK::Half, CorruptK::Garbage];
impl CorruptK {
    fn name(self) -> &'static str {
        match self {
            CorruptK::Zero => "zero_bytes",
            CorruptK::Half => "first_half",
            CorruptK::Garbage => "garbage",
        }
    }
    fn parse(s: &str) -> CorruptK {
        CORRUPT_ALL.iter().copied().find(|t| t.name() == s).unwrap_or_else(|| mc::machinery_error(&format!("bad corruption class {s:?}")))
    }
    fn apply(self, bytes: &[u8]) -> Vec<u8> {
        match self {
            CorruptK::Zero => Vec::new(),
            CorruptK::Half => bytes[..bytes.len() / 2].to_vec(),
            CorruptK::Garbage => {
                let mut v = vec![b'#'; bytes.len().max(2)];
                v[0] = b'{';
                v
            }
        }
    }
}

#[derive(Clone, Copy, Debug, PartialEq, Eq, Hash)]
enum Entry {
    /// everything dropped, fresh store, `CheckpointManager::new` then `recover`
    New,
    /// the manager built before the corruption stays alive, `recover` is called on it
    Recover,
}
impl Entry {
    fn name(self) -> &'static str {
        match self {
            Entry::New => "manager_new",
            Entry::Recover => "recover",
        }
    }
    fn parse(s: &str) -> Entry {
        match s {
            "manager_new" => Entry::New,
            "recover" => Entry::Recover,
            _ => mc::machinery_error(&format!("bad entry {s:?}")),
        }
    }
}

#[derive(Clone, Debug, PartialEq, Eq, Hash)]
enum Plan {
    Clean,
    Crash { at: usize, torn: TornK, second: Option<(usize, TornK)> },
    Corrupt { after_op: usize, class: CorruptK, entry: Entry },
}

#[derive(Clone, Debug)]
struct Case {
    m: usize,
    hist: Vec<Op>,
    plan: Plan,
}
impl Case {
    fn to_json(&self) -> Value {
        let plan = match &self.plan {
            Plan::Clean => json!({"kind":"clean"}),
            Plan::Crash { at, torn, second } => json!({
                "kind":"crash","crash_at":at,"torn":torn.name(),
                "second": second.map(|(q,t)| json!({"crash_at":q,"torn":t.name()})),
            }),
            Plan::Corrupt { after_op, class, entry } => json!({"kind":"corrupt_newest","after_op":after_op,"class":class.name(),"entry":entry.name()}),
        };
        json!({"max_checkpoints": self.m, "history": hist_str(&self.hist), "plan": plan})
    }
    fn from_json(v: &Value) -> Case {
        let bad = |what: &str| -> ! { mc::machinery_error(&format!("replay case: missing/invalid {what}")) };
        let m = v["max_checkpoints"].as_u64().unwrap_or_else(|| bad("max_checkpoints")) as usize;
        let hist = hist_parse(v["history"].as_str().unwrap_or_else(|| bad("history")));
        let p = &v["plan"];
        let plan = match p["kind"].as_str().unwrap_or_else(|| bad("plan.kind")) {
            "clean" => Plan::Clean,
            "crash" => Plan::Crash {
                at: p["crash_at"].as_u64().unwrap_or_else(|| bad("crash_at")) as usize,
                torn: TornK::parse(p["torn"].as_str().unwrap_or("none")),
                second: if p["second"].is_object() {
                    Some((p["second"]["crash_at"].as_u64().unwrap_or_else(|| bad("second.crash_at")) as usize, TornK::parse(p["second"]["torn"].as_str().unwrap_or("none"))))
                } else {
                    None
                },
            },
            "corrupt_newest" => Plan::Corrupt {
                after_op: p["after_op"].as_u64().unwrap_or_else(|| bad("after_op")) as usize,
                class: CorruptK::parse(p["class"].as_str().unwrap_or_else(|| bad("class"))),
                entry: Entry::parse(p["entry"].as_str().unwrap_or_else(|| bad("entry"))),
            },
            _ => bad("plan.kind"),
        };
        Case { m, hist, plan }
    }
    fn size(&self) -> usize {
        let f = match &self.plan {
            Plan::Clean => 0,
            Plan::Crash { at, second, .. } => 1 + at + second.map(|(q, _)| 50 + q).unwrap_or(0),
            Plan::Corrupt { after_op, .. } => 1 + after_op,
        };
        self.hist.len() * 100 + self.m * 10 + f
    }
}

// ---------------------------------------------------------------------------------------------
// Reference model

/// The checkpoint handed to `checkpoint()` for payload number `p` (id and timestamp are assigned by
/// the manager and are not part of the identity of a saved checkpoint).
fn make_cp(p: u64) -> Checkpoint {
    let mut metadata = std::collections::HashMap::new();
    metadata.insert("tag".to_string(), format!("save-{p}"));
    metadata.insert("pad".to_string(), format!("{p:0>48}"));
    Checkpoint {
        id: 0,
        timestamp_ms: 0,
        events_processed: p,
        window_states: Default::default(),
        pattern_states: Default::default(),
        metadata,
        context_states: Default::default(),
    }
}
/// `c` is, field for field (ignoring id / timestamp), the checkpoint saved for some payload number
fn matches_saved(c: &Checkpoint) -> Option<u64> {
    let want = make_cp(c.events_processed);
    let whole = c.metadata == want.metadata && c.window_states.is_empty() && c.pattern_states.is_empty() && c.context_states.is_empty();
    whole.then_some(c.events_processed)
}

/// A `put` has reached its rename iff the crash point is after the rename or in the prune that follows.
fn reached_rename(crash_label: &str) -> bool {
    crash_label == "put:after_rename" || crash_label.starts_with("delete:")
}

#[derive(Default)]
struct Model {
    /// payload numbers of the checkpoints that were completely written (put reached the rename) and
    /// are still expected readable, oldest first
    complete: Vec<u64>,
    /// after the newest file was made unreadable and until the next completed save: any older
    /// complete checkpoint is an acceptable recovery result
    any_older_ok: bool,
    /// ids observed for payload numbers (through `recover`)
    ids: BTreeMap<u64, u64>,
}

#[derive(Clone, Debug, PartialEq, Eq)]
enum Verdict {
    Ok,
    DontCare,
    Bad(&'static str, String),
}

impl Model {
    /// Oracle for one recovery attempt. `got`: Err(text) = `new`/`recover` failed, Ok(None), Ok(Some(c)).
    fn judge(&self, got: &Result<Option<Checkpoint>, String>) -> Verdict {
        let fail_clause = if self.any_older_ok { "older_not_recovered" } else { "recovery_failed" };
        match got {
            Err(e) => {
                if self.complete.is_empty() {
                    Verdict::DontCare
                } else {
                    Verdict::Bad(fail_clause, format!("recovery failed with `{e}` although checkpoint(s) with payload {:?} are completely written and readable", self.complete))
                }
            }
            Ok(None) => {
                if self.complete.is_empty() {
                    Verdict::Ok
                } else {
                    let c = if self.any_older_ok { "older_not_recovered" } else { "recover_not_newest_complete" };
                    Verdict::Bad(c, format!("recovery returned None although payload(s) {:?} are completely written and readable", self.complete))
                }
            }
            Ok(Some(c)) => match matches_saved(c) {
                Some(p) if self.complete.last() == Some(&p) => Verdict::Ok,
                Some(p) if self.complete.contains(&p) => {
                    if self.any_older_ok {
                        Verdict::Ok
                    } else {
                        Verdict::Bad("recover_not_newest_complete", format!("recovery returned payload {p} (id {}) but the newest completely written one is {:?}", c.id, self.complete.last()))
                    }
                }
                _ => Verdict::Bad(
                    "partial_returned",
                    format!("recovery returned a checkpoint (id {}, events_processed {}, {} metadata keys) that is not one of the completely written ones {:?}", c.id, c.events_processed, c.metadata.len(), self.complete),
                ),
            },
        }
    }

    /// ids must increase from save to save (also across restarts). Payload numbers increase with the
    /// save order, so every id seen for a smaller payload number was issued earlier.
    fn note_id(&mut self, payload: u64, id: u64) -> Option<String> {
        if self.ids.contains_key(&payload) {
            return None;
        }
        let bad = self.ids.iter().filter(|(p, _)| **p < payload).map(|(p, i)| (*p, *i)).filter(|(_, i)| *i >= id).max_by_key(|(_, i)| *i);
        self.ids.insert(payload, id);
        bad.map(|(p, i)| format!("save with payload {payload} got id {id}, not larger than id {i} issued earlier for payload {p}"))
    }
}

pub fn self_test() {
    // history generator: 1 + sum_{k=1..3} 2^(k-1) = 8, shortest first, no leading/trailing/doubled R
    let h = histories(3);
    assert_eq!(h.len(), 8);
    assert_eq!(hist_str(&h[0]), "");
    assert_eq!(hist_str(&h[1]), "S");
    assert!(h.iter().all(|x| { let s = hist_str(x); !s.starts_with('R') && !s.ends_with('R') && !s.contains("RR") }));
    assert!(h.iter().any(|x| hist_str(x) == "SRSS"));
    assert_eq!(hist_parse("SRS"), vec![Op::Save, Op::Restart, Op::Save]);
    // rename reached?
    assert!(!reached_rename("put:before_create_dir"));
    assert!(!reached_rename("put:before_write_tmp"));
    assert!(!reached_rename("put:before_rename"));
    assert!(reached_rename("put:after_rename"));
    assert!(reached_rename("delete:before_remove"));
    assert_eq!(torn_variants("put:before_write_tmp").len(), 4);
    assert_eq!(torn_variants("put:before_rename").len(), 1);
    // oracle
    let mut m = Model::default();
    assert_eq!(m.judge(&Ok(None)), Verdict::Ok);
    assert_eq!(m.judge(&Err("x".into())), Verdict::DontCare);
    assert!(matches!(m.judge(&Ok(Some(make_cp(1001)))), Verdict::Bad("partial_returned", _)));
    m.complete = vec![1001, 1002];
    let mut c2 = make_cp(1002);
    c2.id = 2;
    assert_eq!(m.judge(&Ok(Some(c2.clone()))), Verdict::Ok);
    assert!(matches!(m.judge(&Ok(Some(make_cp(1001)))), Verdict::Bad("recover_not_newest_complete", _)));
    assert!(matches!(m.judge(&Ok(None)), Verdict::Bad("recover_not_newest_complete", _)));
    assert!(matches!(m.judge(&Err("e".into())), Verdict::Bad("recovery_failed", _)));
    let mut torn = make_cp(1002);
    torn.metadata.remove("pad");
    assert!(matches!(m.judge(&Ok(Some(torn))), Verdict::Bad("partial_returned", _)));
    assert!(matches!(m.judge(&Ok(Some(make_cp(1003)))), Verdict::Bad("partial_returned", _)));
    m.any_older_ok = true;
    assert_eq!(m.judge(&Ok(Some(make_cp(1001)))), Verdict::Ok);
    assert!(matches!(m.judge(&Err("e".into())), Verdict::Bad("older_not_recovered", _)));
    assert!(matches!(m.judge(&Ok(None)), Verdict::Bad("older_not_recovered", _)));
    // ids
    let mut m = Model::default();
    assert!(m.note_id(1001, 1).is_none());
    assert!(m.note_id(1002, 2).is_none());
    assert!(m.note_id(1002, 2).is_none());
    assert!(m.note_id(1003, 2).is_some());
    assert!(m.note_id(1004, 5).is_none());
    // corruption classes
    assert_eq!(CorruptK::Zero.apply(b"abcdef"), b"");
    assert_eq!(CorruptK::Half.apply(b"abcdef"), b"abc");
    assert_eq!(CorruptK::Garbage.apply(b"abcdef"), b"{#####");
    // serde of cases
    let c = Case { m: 2, hist: hist_parse("SRS"), plan: Plan::Crash { at: 3, torn: TornK::Half, second: Some((1, TornK::None)) } };
    let back = Case::from_json(&c.to_json());
    assert_eq!((back.m, back.hist, back.plan), (c.m, c.hist.clone(), c.plan.clone()));
}

// ---------------------------------------------------------------------------------------------
// Execution of one case on the real code

#[derive(Default, Debug)]
struct Outcome {
    /// wall-clock-free observations, one per step
    obs: Vec<String>,
    /// (clause, description)
    viols: Vec<(&'static str, String)>,
    /// fault point labels passed before / at the first crash (whole run when no crash fires)
    labels1: Vec<String>,
    /// fault point labels passed after the first crash (up to and including a second crash)
    labels2: Vec<String>,
    crash_labels: Vec<String>,
    /// the planned fault actually happened
    fired: bool,
    /// at least one completely written checkpoint existed when the fault hit
    nontrivial: bool,
}

struct World {
    dir: PathBuf,
    m: usize,
    mgr: Option<CheckpointManager>,
}

fn numeric_files(dir: &Path) -> Vec<(u64, PathBuf)> {
    let mut v = Vec::new();
    if let Ok(rd) = std::fs::read_dir(dir.join("checkpoint")) {
        for e in rd.flatten() {
            if let Some(id) = e.file_name().to_str().and_then(|n| n.parse::<u64>().ok()) {
                v.push((id, e.path()));
            }
        }
    }
    v.sort();
    v
}

impl World {
    fn stop(&mut self) {
        self.mgr = None;
    }
    /// fresh `FileStore` + `CheckpointManager::new` on the directory
    fn start(&mut self) -> Result<(), String> {
        self.mgr = None;
        let dir = self.dir.clone();
        let m = self.m;
        let r = mc::catch(move || -> Result<CheckpointManager, String> {
            let store: Arc<dyn StateStore> = Arc::new(FileStore::open(&dir).map_err(|e| format!("FileStore::open: {e}"))?);
            let cfg = CheckpointConfig { interval: Duration::from_secs(3600), max_checkpoints: m, checkpoint_on_shutdown: false, key_prefix: "verif".into() };
            CheckpointManager::new(store, cfg).map_err(|e| format!("CheckpointManager::new: {e}"))
        });
        match r {
            Ok(Ok(mgr)) => {
                self.mgr = Some(mgr);
                Ok(())
            }
            Ok(Err(e)) => Err(e),
            Err(p) => Err(format!("PANIC {p} at {}", mc::last_panic_location())),
        }
    }
    fn recover(&self) -> Result<Option<Checkpoint>, String> {
        let mgr = self.mgr.as_ref().expect("manager");
        match mc::catch(|| mgr.recover()) {
            Ok(Ok(c)) => Ok(c),
            Ok(Err(e)) => Err(format!("CheckpointManager::recover: {e}")),
            Err(p) => Err(format!("PANIC {p} at {}", mc::last_panic_location())),
        }
    }
}

fn show(got: &Result<Option<Checkpoint>, String>) -> String {
    match got {
        Err(e) => format!("Err({e})"),
        Ok(None) => "None".into(),
        Ok(Some(c)) => format!("Some(id={},payload={},whole={})", c.id, c.events_processed, matches_saved(c).is_some()),
    }
}

/// Judge one recovery result, record ids; returns false when the execution cannot go on.
fn judge_recovery(model: &mut Model, got: Result<Option<Checkpoint>, String>, ctx: &str, out: &mut Outcome) {
    out.obs.push(format!("{ctx}: {}", show(&got)));
    match model.judge(&got) {
        Verdict::Ok | Verdict::DontCare => {}
        Verdict::Bad(clause, desc) => out.viols.push((clause, format!("{ctx}: {desc}"))),
    }
    if let Ok(Some(c)) = &got {
        if let Some(p) = matches_saved(c) {
            if let Some(d) = model.note_id(p, c.id) {
                out.viols.push(("ids_not_increasing", format!("{ctx}: {d}")));
            }
        }
    }
}

/// (re)start + recover, both judged. Returns false if no manager could be built.
fn start_checked(w: &mut World, model: &mut Model, ctx: &str, out: &mut Outcome) -> bool {
    match w.start() {
        Err(e) => {
            judge_recovery(model, Err(e), ctx, out);
            false
        }
        Ok(()) => {
            let got = w.recover();
            judge_recovery(model, got, ctx, out);
            true
        }
    }
}

fn execute(dir: &Path, case: &Case) -> Outcome {
    let mut out = Outcome::default();
    wipe_store(dir);
    let mut w = World { dir: dir.to_path_buf(), m: case.m, mgr: None };
    let mut model = Model::default();
    let (crash1, torn1, second) = match &case.plan {
        Plan::Crash { at, torn, second } => (Some(*at), *torn, *second),
        _ => (None, TornK::None, None),
    };
    fault::arm(crash1, torn1.real());
    let mut crashes = 0usize;
    let mut alive = start_checked(&mut w, &mut model, "initial open", &mut out);
    let mut payload = 1000u64;
    for (i, op) in case.hist.iter().enumerate() {
        if !alive {
            break;
        }
        match op {
            Op::Restart => {
                w.stop();
                alive = start_checked(&mut w, &mut model, &format!("op{i} clean restart"), &mut out);
            }
            Op::Save => {
                payload += 1;
                let cp = make_cp(payload);
                let mgr = w.mgr.as_mut().expect("manager");
                match mc::catch(move || mgr.checkpoint(cp)) {
                    Ok(Ok(())) => {
                        model.complete.push(payload);
                        model.any_older_ok = false;
                        let kept = numeric_files(dir).len();
                        out.obs.push(format!("op{i} save {payload}: ok, {kept} kept"));
                        if kept > case.m {
                            out.viols.push(("more_than_max_kept", format!("op{i}: after a completed checkpoint() {kept} checkpoint files are kept, max_checkpoints = {}", case.m)));
                        }
                        let got = w.recover();
                        judge_recovery(&mut model, got, &format!("op{i} recover after save"), &mut out);
                    }
                    Ok(Err(e)) => {
                        out.obs.push(format!("op{i} save {payload}: Err({e})"));
                        out.viols.push(("save_failed", format!("op{i}: checkpoint() failed on a healthy file system: {e}")));
                        alive = false;
                    }
                    Err(p) if p == CRASH_PAYLOAD => {
                        let log = fault::disarm();
                        let label = log.last().cloned().unwrap_or_default();
                        out.crash_labels.push(label.clone());
                        if crashes == 0 {
                            out.labels1 = log;
                        } else {
                            out.labels2 = log;
                        }
                        crashes += 1;
                        out.fired = true;
                        out.nontrivial |= !model.complete.is_empty();
                        if reached_rename(&label) {
                            model.complete.push(payload);
                            model.any_older_ok = false;
                        }
                        out.obs.push(format!("op{i} save {payload}: CRASH at {label}"));
                        w.stop();
                        if crashes == 1 {
                            match second {
                                Some((q, t)) => fault::arm(Some(q), t.real()),
                                None => fault::arm(None, Torn::None),
                            }
                        }
                        alive = start_checked(&mut w, &mut model, &format!("op{i} restart after crash"), &mut out);
                    }
                    Err(p) => {
                        out.obs.push(format!("op{i} save {payload}: PANIC"));
                        out.viols.push(("panic", format!("op{i}: checkpoint() panicked: {p} at {}", mc::last_panic_location())));
                        alive = false;
                    }
                }
            }
        }
        if let Plan::Corrupt { after_op, class, entry } = &case.plan {
            if alive && *after_op == i {
                alive = corrupt_step(&mut w, &mut model, *class, *entry, i, &mut out);
            }
        }
    }
    if alive {
        w.stop();
        start_checked(&mut w, &mut model, "final restart", &mut out);
    }
    let log = fault::disarm();
    if crashes == 0 {
        out.labels1 = log;
    } else if crashes == 1 {
        out.labels2 = log;
    }
    w.stop();
    wipe_store(dir);
    out
}

/// Remove everything the store wrote (the `checkpoint` sub-directory with all its files). The store's
/// root directory itself is kept: `FileStore::open` creates it when missing and nothing else depends on
/// it, while removing a directory is by far the slowest operation on this file system.
fn wipe_store(dir: &Path) {
    let cp = dir.join("checkpoint");
    if let Ok(rd) = std::fs::read_dir(&cp) {
        for e in rd.flatten() {
            let _ = std::fs::remove_file(e.path());
        }
        if let Err(e) = std::fs::remove_dir(&cp) {
            mc::machinery_error(&format!("cannot clean scratch directory {cp:?}: {e}"));
        }
    }
    if let Ok(mut rd) = std::fs::read_dir(dir) {
        if rd.next().is_some() {
            mc::machinery_error(&format!("unexpected files left in scratch store {dir:?}"));
        }
    }
}

/// Make the newest renamed checkpoint file unreadable, then recover through `entry`.
fn corrupt_step(w: &mut World, model: &mut Model, class: CorruptK, entry: Entry, i: usize, out: &mut Outcome) -> bool {
    let files = numeric_files(&w.dir);
    let Some((newest_id, newest_path)) = files.last().cloned() else {
        out.obs.push(format!("op{i} corrupt: no checkpoint file, skipped"));
        return true;
    };
    if entry == Entry::New {
        w.stop();
    }
    let bytes = std::fs::read(&newest_path).unwrap_or_default();
    if let Err(e) = std::fs::write(&newest_path, class.apply(&bytes)) {
        mc::machinery_error(&format!("cannot corrupt {newest_path:?}: {e}"));
    }
    // what is still readable, as seen by the harness's own reader (plain serde_json, whole-content match)
    let mut older: Vec<(u64, u64)> = Vec::new();
    for (id, p) in &files[..files.len() - 1] {
        if let Ok(c) = serde_json::from_slice::<Checkpoint>(&std::fs::read(p).unwrap_or_default()) {
            if let Some(pl) = matches_saved(&c) {
                older.push((*id, pl));
            }
        }
    }
    out.fired = true;
    out.nontrivial |= !older.is_empty();
    model.complete = older.iter().map(|(_, pl)| *pl).collect();
    model.any_older_ok = true;
    out.obs.push(format!("op{i} corrupt newest id {newest_id} ({}), older readable ids {:?}", class.name(), older.iter().map(|(id, _)| *id).collect::<Vec<_>>()));
    match entry {
        Entry::New => start_checked(w, model, &format!("op{i} restart with unreadable newest"), out),
        Entry::Recover => {
            let got = w.recover();
            judge_recovery(model, got, &format!("op{i} recover() on the live manager with unreadable newest"), out);
            true
        }
    }
}

// ---------------------------------------------------------------------------------------------
// Signatures and reporting

fn fault_desc(case: &Case, out: &Outcome) -> String {
    let one = |k: usize, torn: TornK| {
        let label = out.crash_labels.get(k).cloned().unwrap_or_else(|| "unreached".into());
        if label == "put:before_write_tmp" {
            format!("crash@{label}/torn={}", torn.name())
        } else {
            format!("crash@{label}")
        }
    };
    match &case.plan {
        Plan::Clean => "no_fault".into(),
        Plan::Crash { torn, second: None, .. } => one(0, *torn),
        Plan::Crash { torn, second: Some((_, t2)), .. } => format!("{}+{}", one(0, *torn), one(1, *t2)),
        Plan::Corrupt { class, entry, .. } => format!("corrupt_newest={}/entry={}", class.name(), entry.name()),
    }
}

fn report(case: &Case, out: &Outcome, acc: &mut Acc) {
    acc.evaluations += 1;
    if out.fired && out.nontrivial {
        acc.nontrivial += 1;
    }
    acc.outcome(&out.obs);
    let fd = fault_desc(case, out);
    let mut seen: Vec<&str> = Vec::new();
    for (clause, desc) in &out.viols {
        // one report per clause and execution (a failed recovery repeats at every later restart)
        if seen.contains(clause) {
            continue;
        }
        seen.push(clause);
        let sig = format!("C21:{fd}:{clause}");
        let d = format!("max_checkpoints={} history={:?} fault={fd}: {desc}", case.m, hist_str(&case.hist));
        let mut cj = case.to_json();
        cj["observations"] = json!(out.obs);
        acc.viol.add(sig, d, cj, case.size());
    }
}

// ---------------------------------------------------------------------------------------------
// Driver

/// One scratch sub-directory per worker thread (a shared parent directory serialises the workers on
/// its inode lock); an execution wipes it before and after use.
fn worker_dir(root: &Path) -> PathBuf {
    static NEXT: std::sync::atomic::AtomicUsize = std::sync::atomic::AtomicUsize::new(0);
    thread_local! { static ID: usize = NEXT.fetch_add(1, std::sync::atomic::Ordering::Relaxed); }
    let d = root.join(format!("w{}", ID.with(|i| *i)));
    let _ = std::fs::create_dir_all(&d);
    d.join("store")
}

pub fn run(args: &Args) -> ! {
    self_test();
    let mut rep = Report::new(args, "fault_enumeration");
    let root = mc::scratch_dir("C21");

    if let Some(path) = &args.replay {
        let case = Case::from_json(&mc::load_replay(path));
        let out = execute(&root.join("replay"), &case);
        for o in &out.obs {
            println!("  {o}");
        }
        let mut acc = Acc::default();
        report(&case, &out, &mut acc);
        rep.absorb(acc);
        let _ = std::fs::remove_dir_all(&root);
        rep.finish();
    }

    let max_saves = args.tier.pick(4usize, 8usize);
    let deadline = Deadline::after(Duration::from_secs(args.tier.pick(30, 1000)));
    let hists = histories(max_saves);

    // determinism gate: first and last history, clean + crash in the middle, twice each
    for h in [hists.iter().find(|h| !h.is_empty()).unwrap(), hists.last().unwrap()] {
        for m in [1usize, 3] {
            let clean = Case { m, hist: h.clone(), plan: Plan::Clean };
            let a = execute(&root.join("det-a"), &clean);
            let b = execute(&root.join("det-b"), &clean);
            if a.obs != b.obs || a.labels1 != b.labels1 {
                mc::machinery_error(&format!("C21 replay of history {:?} is not deterministic:\n{:?}\n{:?}", hist_str(h), a.obs, b.obs));
            }
            let mid = Case { m, hist: h.clone(), plan: Plan::Crash { at: a.labels1.len() / 2, torn: TornK::Half, second: None } };
            let a = execute(&root.join("det-a"), &mid);
            let b = execute(&root.join("det-b"), &mid);
            if a.obs != b.obs || a.labels2 != b.labels2 || !a.fired {
                mc::machinery_error(&format!("C21 crash replay of history {:?} is not deterministic (or the crash did not fire):\n{:?}\n{:?}", hist_str(h), a.obs, b.obs));
            }
        }
    }

    // Phase 1: counting run (= clean run, checked like every other) per (history, max_checkpoints)
    let mut configs: Vec<(usize, Vec<Op>)> = Vec::new();
    for h in &hists {
        for m in 1..=3usize {
            configs.push((m, h.clone()));
        }
    }
    let labels: std::sync::Mutex<Vec<Option<Vec<String>>>> = std::sync::Mutex::new(vec![None; configs.len()]);
    let (acc, _) = mc::par_indices(configs.len() as u64, args.threads, 1, |i, acc| {
        let (m, h) = &configs[i as usize];
        let case = Case { m: *m, hist: h.clone(), plan: Plan::Clean };
        let out = execute(&worker_dir(&root), &case);
        report(&case, &out, acc);
        if i as usize == configs.len() - 1 {
            acc.samples.push(json!({"case": case.to_json(), "fault_points_passed": out.labels1, "observations": out.obs}));
        }
        labels.lock().unwrap()[i as usize] = Some(out.labels1);
        true
    });
    rep.absorb(acc);
    let labels: Vec<Vec<String>> = labels.into_inner().unwrap().into_iter().map(|l| l.expect("counting run")).collect();

    // Phase 2: jobs = single faults; each crash job also enumerates every second crash of its continuation
    let mut jobs: Vec<Case> = Vec::new();
    let mut fault_points = 0u64;
    let mut label_kinds: BTreeMap<String, u64> = BTreeMap::new();
    for (ci, (m, h)) in configs.iter().enumerate() {
        for (p, l) in labels[ci].iter().enumerate() {
            fault_points += 1;
            *label_kinds.entry(l.clone()).or_insert(0) += 1;
            for t in torn_variants(l) {
                jobs.push(Case { m: *m, hist: h.clone(), plan: Plan::Crash { at: p, torn: *t, second: None } });
            }
        }
        for i in 0..h.len() {
            for class in CORRUPT_ALL {
                for entry in [Entry::New, Entry::Recover] {
                    jobs.push(Case { m: *m, hist: h.clone(), plan: Plan::Corrupt { after_op: i, class, entry } });
                }
            }
        }
    }
    let double_max_saves = args.tier.pick(4usize, 7usize);
    let n_jobs = jobs.len();
    let (acc, done) = mc::par_indices(n_jobs as u64, args.threads, 1, |j, acc| {
        if deadline.expired() {
            return false;
        }
        let case = &jobs[j as usize];
        let dir = worker_dir(&root);
        let out = execute(&dir, case);
        if let Plan::Crash { at, torn, .. } = &case.plan {
            if !out.fired {
                mc::machinery_error(&format!("planned crash did not fire: {}", case.to_json()));
            }
            acc.count("single_crash_executions", 1);
            if j as usize == n_jobs / 2 || out.labels2.len() > 6 {
                acc.sample(|| json!({"case": case.to_json(), "observations": out.obs}));
            }
            report(case, &out, acc);
            // second crash in the continuation
            let saves = case.hist.iter().filter(|o| **o == Op::Save).count();
            if saves <= double_max_saves {
                for (q, l2) in out.labels2.iter().enumerate() {
                    if q % 8 == 0 && deadline.expired() {
                        return false;
                    }
                    for t2 in torn_variants(l2) {
                        let c2 = Case { m: case.m, hist: case.hist.clone(), plan: Plan::Crash { at: *at, torn: *torn, second: Some((q, *t2)) } };
                        let o2 = execute(&dir, &c2);
                        if o2.crash_labels.len() != 2 {
                            mc::machinery_error(&format!("planned second crash did not fire: {}", c2.to_json()));
                        }
                        acc.count("double_crash_executions", 1);
                        report(&c2, &o2, acc);
                    }
                }
            }
        } else {
            if out.fired {
                acc.count("corruption_executions", 1);
                if out.nontrivial {
                    acc.count("corruption_with_older_readable", 1);
                    acc.sample(|| json!({"case": case.to_json(), "observations": out.obs}));
                }
            }
            report(case, &out, acc);
        }
        true
    });
    if !done {
        rep.cap_hit("wall cap during fault enumeration");
    }
    rep.absorb(acc);
    let _ = std::fs::remove_dir_all(&root);

    rep.set("histories", json!(hists.len()));
    rep.set("max_saves_per_history", json!(max_saves));
    rep.set("max_saves_for_second_crash", json!(double_max_saves));
    rep.set("max_checkpoints_values", json!([1, 2, 3]));
    rep.set("fault_points", json!(fault_points));
    rep.set("fault_point_labels", json!(label_kinds));
    rep.set("torn_variants_at_write_point", json!(TORN_ALL.iter().map(|t| t.name()).collect::<Vec<_>>()));
    rep.set("corruption_classes", json!(CORRUPT_ALL.iter().map(|t| t.name()).collect::<Vec<_>>()));
    rep.set("recovery_entries_under_corruption", json!(["manager_new", "recover"]));
    rep.rule = format!(
        "Exhaustive fault enumeration on the real FileStore + CheckpointManager. Histories: k <= {max_saves} saves with a clean restart in any subset of the gaps (no restart-only variation is lost: every execution opens first and ends with a restart), max_checkpoints in 1..=3. Per (history, max_checkpoints): one fault-free run (also counts and labels the fault points); one execution per (fault point, torn variant) — torn variants none/zero/half/all-but-one apply at put:before_write_tmp, the other points have the single variant none; after the crash all objects are dropped, a fresh FileStore + CheckpointManager::new + recover() are judged, the rest of the history is run, and a final restart is judged; for every such execution of a history with <= {double_max_saves} saves one further execution per (fault point of the continuation, torn variant) as a second crash; plus one execution per (operation index, corruption class zero_bytes/first_half/garbage of the newest renamed file, recovery entry manager_new/recover). evaluations = executions. Non-trivial = the fault fired while at least one completely written checkpoint existed (crash) / an older readable checkpoint existed (corruption)."
    );
    rep.assume("a put is 'completely written' iff the crash point is after its rename (labels put:after_rename / delete:*): the rename is taken as the atomic commit point of the file system (no power-loss reordering of write and rename is modelled; the process-crash model of the property)");
    rep.assume("a checkpoint is identified by its payload (events_processed + metadata handed to checkpoint()); id and timestamp_ms are assigned by the manager (timestamp_ms is wall-clock and projected away)");
    rep.assume("don't-care: the id of a save whose put never reached the rename may be issued again after the restart (that id was never observable); ids are compared only between checkpoints observed through recover()");
    rep.assume("don't-care: with the newest file unreadable, *which* older readable checkpoint recovery returns (any completely written one is accepted); with no older readable checkpoint any of Err/None is accepted, but never a checkpoint that was not completely written");
    rep.assume("the max_checkpoints bound is checked after every completed checkpoint() call by listing the numeric file names in <dir>/checkpoint (tmp files are not checkpoints)");
    rep.assume("don't-care: whether recovery fails or returns None when no checkpoint was ever completely written");
    rep.finish();
}
