//! h_store — C21 (checkpoint storage crash consistency) and C45 (resilient sink + breaker contract).
//! See DESIGN.md §3 and README-harness.md.

mod c21;
mod c45;

fn main() {
    let args = mc::parse_args();
    mc::quiet_panics();
    match args.prop.as_str() {
        "C21" => c21::run(&args),
        "C45" => c45::run(&args),
        other => mc::machinery_error(&format!("h_store serves C21 and C45, not {other}")),
    }
}
