//! C45 — a resilient sink never loses an event and its breaker follows its contract.
//!
//! Drives the real `ResilientSink::{send, send_batch}` futures, polled by hand on one thread with a
//! no-op waker, over the real `CircuitBreaker` and the real `DeadLetterQueue` (one file per execution
//! under the scratch directory). The inner sink is a mock whose `send` future completes only when the
//! explorer delivers an outcome; it does not override `send_batch`, so a batch is the trait's default
//! per-event loop and can fail after a partial delivery.
//!
//! Virtual clock: reset timeout 40 s, `verif_backdate` steps of 25 s (the real `elapsed() >= timeout`
//! comparison decides).
//!
//! Enumerated: (E2) every sequence of {request kind × downstream outcome, tick} up to a length per
//! threshold 1..=4; (E3) every interleaving of {start sender, complete sender's pending inner send
//! with ok/fail, tick} for up to 3 concurrent senders after every preamble of consecutive failures.

use mc::{Acc, Args, Deadline, Report};
use serde_json::{json, Value};
use std::collections::{BTreeMap, HashSet};
use std::future::Future;
use std::path::{Path, PathBuf};
use std::pin::Pin;
use std::sync::atomic::{AtomicU64, Ordering};
use std::sync::{Arc, Mutex};
use std::task::{Context, Poll};
use std::time::{Duration, Instant};
use varpulis_core::Value as V;
use varpulis_runtime::circuit_breaker::{CircuitBreaker, CircuitBreakerConfig, State};
use varpulis_runtime::dead_letter::DeadLetterQueue;
use varpulis_runtime::sink::{ResilientSink, Sink};
use varpulis_runtime::Event;

const TIMEOUT_S: u32 = 40;
const TICK_S: u32 = 25;
/// virtual ages saturate here (already past the timeout; more back-dating is unobservable through
/// the `>=` comparison and would only risk underflowing `Instant`)
const AGE_CAP: u32 = 75;
const SINK_NAME: &str = "mock-sink";

// ---------------------------------------------------------------------------------------------
// Mock inner sink

struct MockState {
    /// one slot per inner `send` call: (event id, outcome once delivered by the explorer)
    slots: Vec<(i64, Option<bool>)>,
    delivered: Vec<i64>,
}
struct Mock {
    st: Mutex<MockState>,
}
struct SlotFut {
    mock: Arc<Mock>,
    slot: usize,
}
fn downstream_error(id: i64) -> String {
    format!("downstream refused event {id}")
}
impl Future for SlotFut {
    type Output = anyhow::Result<()>;
    fn poll(self: Pin<&mut Self>, _cx: &mut Context<'_>) -> Poll<Self::Output> {
        let mut st = self.mock.st.lock().unwrap();
        let (id, outcome) = st.slots[self.slot];
        match outcome {
            None => Poll::Pending,
            Some(true) => {
                st.delivered.push(id);
                Poll::Ready(Ok(()))
            }
            Some(false) => Poll::Ready(Err(anyhow::anyhow!(downstream_error(id)))),
        }
    }
}
struct MockSink(Arc<Mock>);
#[async_trait::async_trait]
impl Sink for MockSink {
    fn name(&self) -> &str {
        SINK_NAME
    }
    async fn send(&self, event: &Event) -> anyhow::Result<()> {
        let id = match event.data.get("id") {
            Some(V::Int(i)) => *i,
            _ => -1,
        };
        let slot = {
            let mut st = self.0.st.lock().unwrap();
            st.slots.push((id, None));
            st.slots.len() - 1
        };
        SlotFut { mock: self.0.clone(), slot }.await
    }
    async fn flush(&self) -> anyhow::Result<()> {
        Ok(())
    }
    async fn close(&self) -> anyhow::Result<()> {
        Ok(())
    }
}

// ---------------------------------------------------------------------------------------------
// Reference breaker automaton

#[derive(Clone, Copy, Debug, PartialEq, Eq, Hash)]
enum B {
    Closed { consec: u32 },
    /// ages in virtual seconds since the breaker opened / since the last recorded failure
    Open { age_open: u32, age_last: u32 },
    /// exactly one probe (`Model::probe`) is in flight
    HalfOpen,
}
impl B {
    fn kind(self) -> State {
        match self {
            B::Closed { .. } => State::Closed,
            B::Open { .. } => State::Open,
            B::HalfOpen => State::HalfOpen,
        }
    }
    fn name(self) -> &'static str {
        match self {
            B::Closed { .. } => "closed",
            B::Open { .. } => "open",
            B::HalfOpen => "halfopen",
        }
    }
}
#[derive(Clone, Copy, Debug, PartialEq, Eq)]
enum Admit {
    Must,
    MustNot,
    /// the text does not say from which instant the reset timeout counts when a request admitted
    /// earlier fails while the breaker is already open
    DontCare,
}
#[derive(Clone, Debug)]
struct Model {
    n: u32,
    b: B,
    probe: Option<usize>,
}
impl Model {
    fn new(n: u32) -> Self {
        Model { n, b: B::Closed { consec: 0 }, probe: None }
    }
    fn on_request(&self) -> Admit {
        match self.b {
            B::Closed { .. } => Admit::Must,
            B::Open { age_open, age_last } => {
                if age_open < TIMEOUT_S {
                    Admit::MustNot
                } else if age_last >= TIMEOUT_S {
                    Admit::Must
                } else {
                    Admit::DontCare
                }
            }
            B::HalfOpen => Admit::MustNot,
        }
    }
    fn after_request(&mut self, req: usize, admitted: bool) {
        if let (B::Open { .. }, true) = (self.b, admitted) {
            self.b = B::HalfOpen;
            self.probe = Some(req);
        }
    }
    /// completion of an admitted request; returns false when the text is silent about the effect
    /// (a request admitted before the breaker opened completes while another request is the probe)
    fn on_complete(&mut self, req: usize, ok: bool) -> bool {
        match self.b {
            B::Closed { consec } => {
                self.b = if ok {
                    B::Closed { consec: 0 }
                } else if consec + 1 >= self.n {
                    B::Open { age_open: 0, age_last: 0 }
                } else {
                    B::Closed { consec: consec + 1 }
                };
                true
            }
            B::Open { age_open, .. } => {
                if !ok {
                    self.b = B::Open { age_open, age_last: 0 };
                }
                true
            }
            B::HalfOpen => {
                if self.probe == Some(req) {
                    self.probe = None;
                    self.b = if ok { B::Closed { consec: 0 } } else { B::Open { age_open: 0, age_last: 0 } };
                    true
                } else {
                    false
                }
            }
        }
    }
    /// don't-care resolution: follow the implementation
    fn adopt(&mut self, s: State) {
        match s {
            State::Closed => {
                self.b = B::Closed { consec: 0 };
                self.probe = None;
            }
            State::Open => {
                self.b = B::Open { age_open: 0, age_last: 0 };
                self.probe = None;
            }
            State::HalfOpen => {}
        }
    }
    fn tick(&mut self) {
        if let B::Open { age_open, age_last } = self.b {
            self.b = B::Open { age_open: (age_open + TICK_S).min(AGE_CAP), age_last: (age_last + TICK_S).min(AGE_CAP) };
        }
    }
}

pub fn self_test() {
    // threshold 2: fail, fail opens; rejected until two ticks (50 s >= 40 s); probe; success closes
    let mut m = Model::new(2);
    assert_eq!(m.on_request(), Admit::Must);
    assert!(m.on_complete(0, false));
    assert_eq!(m.b, B::Closed { consec: 1 });
    assert!(m.on_complete(1, true));
    assert_eq!(m.b, B::Closed { consec: 0 });
    m.on_complete(2, false);
    m.on_complete(3, false);
    assert_eq!(m.b, B::Open { age_open: 0, age_last: 0 });
    assert_eq!(m.on_request(), Admit::MustNot);
    m.tick();
    assert_eq!(m.on_request(), Admit::MustNot);
    m.tick();
    assert_eq!(m.b, B::Open { age_open: 50, age_last: 50 });
    assert_eq!(m.on_request(), Admit::Must);
    m.after_request(4, true);
    assert_eq!((m.b, m.probe), (B::HalfOpen, Some(4)));
    assert_eq!(m.on_request(), Admit::MustNot);
    assert!(!m.on_complete(9, true)); // not the probe: silent
    assert_eq!(m.b, B::HalfOpen);
    assert!(m.on_complete(4, true));
    assert_eq!(m.b, B::Closed { consec: 0 });
    // threshold 1: probe failure reopens with a fresh timeout
    let mut m = Model::new(1);
    m.on_complete(0, false);
    m.tick();
    m.tick();
    m.tick();
    m.tick();
    assert_eq!(m.b, B::Open { age_open: AGE_CAP, age_last: AGE_CAP });
    m.after_request(1, true);
    assert!(m.on_complete(1, false));
    assert_eq!(m.b, B::Open { age_open: 0, age_last: 0 });
    assert_eq!(m.on_request(), Admit::MustNot);
    // a straggler failing while open: the window between the two readings of "timeout" is a don't-care
    m.tick();
    m.on_complete(7, false);
    m.tick();
    assert_eq!(m.b, B::Open { age_open: 50, age_last: 25 });
    assert_eq!(m.on_request(), Admit::DontCare);
    m.after_request(8, false);
    assert_eq!(m.b.kind(), State::Open);
    m.tick();
    assert_eq!(m.on_request(), Admit::Must);
    // a success while open changes nothing
    m.on_complete(9, true);
    assert_eq!(m.b, B::Open { age_open: 75, age_last: 50 });
    // step syntax
    for s in ["start 0 single", "start 2 batch3", "complete 1 ok", "complete 0 fail", "tick"] {
        assert_eq!(Step::parse(s).show(), s);
    }
    assert_eq!(seq_alphabet('B').len(), 12);
}

// ---------------------------------------------------------------------------------------------
// One execution on the real objects

#[derive(Clone, Copy, Debug, PartialEq, Eq, Hash)]
enum Kind {
    Single,
    Batch(usize),
}
impl Kind {
    fn show(self) -> String {
        match self {
            Kind::Single => "single".into(),
            Kind::Batch(b) => format!("batch{b}"),
        }
    }
    fn len(self) -> usize {
        match self {
            Kind::Single => 1,
            Kind::Batch(b) => b,
        }
    }
}
#[derive(Clone, Copy, Debug, PartialEq, Eq, Hash)]
enum Step {
    Start(usize, Kind),
    Complete(usize, bool),
    Tick,
}
impl Step {
    fn show(&self) -> String {
        match self {
            Step::Start(s, k) => format!("start {s} {}", k.show()),
            Step::Complete(s, ok) => format!("complete {s} {}", if *ok { "ok" } else { "fail" }),
            Step::Tick => "tick".into(),
        }
    }
    fn parse(t: &str) -> Step {
        let bad = || -> ! { mc::machinery_error(&format!("bad step {t:?}")) };
        let w: Vec<&str> = t.split_whitespace().collect();
        match w.as_slice() {
            ["tick"] => Step::Tick,
            ["start", s, k] => {
                let kind = if *k == "single" { Kind::Single } else { Kind::Batch(k.strip_prefix("batch").and_then(|b| b.parse().ok()).unwrap_or_else(|| bad())) };
                Step::Start(s.parse().unwrap_or_else(|_| bad()), kind)
            }
            ["complete", s, o] => Step::Complete(s.parse().unwrap_or_else(|_| bad()), *o == "ok"),
            _ => bad(),
        }
    }
}

type Fut = Pin<Box<dyn Future<Output = anyhow::Result<()>>>>;

struct Req {
    kind: Kind,
    ids: Vec<i64>,
    admitted: bool,
    /// Some(ok) once the ResilientSink future returned
    done: Option<bool>,
    /// position of the inner send that failed
    failed_at: Option<usize>,
    inner_done: usize,
}
#[derive(Default)]
struct SenderSt {
    fut: Option<Fut>,
    req: Option<usize>,
    cur_slot: Option<usize>,
    sends_done: usize,
}

struct Exec {
    cb: Arc<CircuitBreaker>,
    mock: Arc<Mock>,
    sink: Arc<ResilientSink>,
    dlq_path: PathBuf,
    dlq_offset: u64,
    model: Model,
    senders: Vec<SenderSt>,
    reqs: Vec<Req>,
    next_id: i64,
    /// virtual age of the breaker's real `last_failure_time` (None: no failure recorded yet)
    real_age: Option<u32>,
    steps: Vec<Step>,
    trace: Vec<String>,
    /// (signature, description); the first breaker violation stops the execution, the accounting at
    /// the end may add several (one per signature), so one finding cannot hide another
    viols: Vec<(String, String)>,
    opened: bool,
    max_in_flight: usize,
    state_hashes: Vec<u64>,
}

static WORKER_SEQ: AtomicU64 = AtomicU64::new(0);
thread_local! {
    /// (worker number, bytes already in this worker's dead-letter file)
    static WORKER_DLQ: std::cell::Cell<(u64, u64)> = std::cell::Cell::new((WORKER_SEQ.fetch_add(1, Ordering::Relaxed), u64::MAX));
}

thread_local! {
    static WORKER_READER: std::cell::RefCell<Option<std::fs::File>> = const { std::cell::RefCell::new(None) };
}

impl Exec {
    /// Every execution opens a new real `DeadLetterQueue` on its worker's file (the queue appends, so
    /// the lines of this execution are those after `dlq_offset`); creating and unlinking one file per
    /// execution is what dominates the run time on this file system, so the file is reused and
    /// truncated from time to time.
    fn new(n: u32, n_senders: usize, dir: &Path) -> Exec {
        let (w, mut offset) = WORKER_DLQ.with(|c| c.get());
        // one sub-directory per worker: opening with O_CREAT takes the parent directory's lock
        let dlq_path = dir.join(format!("w{w}")).join("dlq.jsonl");
        if offset == u64::MAX {
            let _ = std::fs::create_dir_all(dlq_path.parent().unwrap());
        }
        if offset == u64::MAX || offset > (1 << 20) {
            if let Err(e) = std::fs::write(&dlq_path, b"") {
                mc::machinery_error(&format!("DLQ file {dlq_path:?}: {e}"));
            }
            offset = 0;
        }
        let mock = Arc::new(Mock { st: Mutex::new(MockState { slots: Vec::new(), delivered: Vec::new() }) });
        let cb = Arc::new(CircuitBreaker::new(CircuitBreakerConfig { failure_threshold: n, reset_timeout: Duration::from_secs(TIMEOUT_S as u64) }));
        let dlq = Arc::new(DeadLetterQueue::open(&dlq_path).unwrap_or_else(|e| mc::machinery_error(&format!("DLQ open {dlq_path:?}: {e}"))));
        let sink = Arc::new(ResilientSink::new(Arc::new(MockSink(mock.clone())), cb.clone(), Some(dlq)));
        Exec {
            cb,
            mock,
            sink,
            dlq_path,
            dlq_offset: offset,
            model: Model::new(n),
            senders: (0..n_senders).map(|_| SenderSt::default()).collect(),
            reqs: Vec::new(),
            next_id: 0,
            real_age: None,
            steps: Vec::new(),
            trace: Vec::new(),
            viols: Vec::new(),
            opened: false,
            max_in_flight: 0,
            state_hashes: Vec::new(),
        }
    }
    fn in_flight(&self, s: usize) -> bool {
        self.senders[s].fut.is_some()
    }
    fn violate(&mut self, sig: &str, desc: String) {
        let sig = format!("C45:{sig}");
        if !self.viols.iter().any(|(s, _)| *s == sig) {
            self.viols.push((sig, desc));
        }
    }
    fn slots(&self) -> usize {
        self.mock.st.lock().unwrap().slots.len()
    }
    fn after_step(&mut self, what: String) {
        if self.model.b.kind() != State::Closed {
            self.opened = true;
        }
        let nf = self.senders.iter().filter(|s| s.fut.is_some()).count();
        self.max_in_flight = self.max_in_flight.max(nf);
        self.trace.push(format!("{what} | breaker {:?}", self.cb.state()));
        let canon: Vec<(bool, bool, usize, usize)> = self
            .senders
            .iter()
            .map(|s| match s.req.filter(|_| s.fut.is_some()) {
                Some(r) => (true, self.model.probe == Some(r), self.reqs[r].inner_done, s.sends_done),
                None => (false, false, 0, s.sends_done),
            })
            .collect();
        self.state_hashes.push(mc::hash_of(&(self.model.n, self.model.b, canon)));
    }
    fn check_state(&mut self, clause: String, ctx: &str) {
        let real = self.cb.state();
        if real != self.model.b.kind() {
            self.violate(&format!("breaker:{clause}"), format!("{ctx}: breaker state is {real:?}, the contract gives {:?}", self.model.b.kind()));
        }
    }

    fn apply(&mut self, step: Step) {
        self.steps.push(step);
        match step {
            Step::Start(s, k) => self.start(s, k),
            Step::Complete(s, ok) => self.complete(s, ok),
            Step::Tick => self.tick(),
        }
    }

    fn start(&mut self, s: usize, kind: Kind) {
        if self.in_flight(s) {
            mc::machinery_error("start on a sender that is in flight");
        }
        let ids: Vec<i64> = (0..kind.len()).map(|k| self.next_id + k as i64).collect();
        self.next_id += kind.len() as i64;
        let ts = chrono::DateTime::from_timestamp_millis(1_700_000_000_000).unwrap();
        let events: Vec<Event> = ids
            .iter()
            .map(|id| {
                let mut e = Event::new_at("E", ts);
                e.data.insert("id".into(), V::Int(*id));
                e
            })
            .collect();
        let sink = self.sink.clone();
        let mut fut: Fut = match kind {
            Kind::Single => {
                let ev = events[0].clone();
                Box::pin(async move { sink.send(&ev).await })
            }
            Kind::Batch(_) => {
                let evs: Vec<Arc<Event>> = events.into_iter().map(Arc::new).collect();
                Box::pin(async move { sink.send_batch(&evs).await })
            }
        };
        let r = self.reqs.len();
        let before_model = self.model.b;
        let verdict = self.model.on_request();
        let slots_before = self.slots();
        let waker = futures::task::noop_waker();
        let mut cx = Context::from_waker(&waker);
        let polled = fut.as_mut().poll(&mut cx);
        let admitted = self.slots() > slots_before;
        self.reqs.push(Req { kind, ids, admitted, done: None, failed_at: None, inner_done: 0 });
        let ctx = format!("request #{r} ({}) from sender {s} while the breaker is {}", kind.show(), before_model.name());
        match (verdict, admitted) {
            (Admit::Must, false) => {
                let clause = if matches!(before_model, B::Closed { .. }) { "breaker:closed_rejects" } else { "breaker:open_rejects_after_timeout" };
                self.violate(clause, format!("{ctx}: rejected although the contract admits it ({before_model:?})"));
            }
            (Admit::MustNot, true) => match before_model {
                B::HalfOpen => self.violate(
                    "halfopen_admits_concurrent_probes",
                    format!("{ctx}: admitted to the downstream sink although probe request #{} is still in flight — exactly one probe may pass while half-open", self.model.probe.map(|p| p as i64).unwrap_or(-1)),
                ),
                _ => self.violate("breaker:open_admits_before_timeout", format!("{ctx}: admitted although the reset timeout has not passed ({before_model:?})")),
            },
            _ => {}
        }
        self.model.after_request(r, admitted);
        match polled {
            Poll::Ready(res) => {
                if admitted {
                    mc::machinery_error("admitted request completed before the mock delivered an outcome");
                }
                self.reqs[r].done = Some(res.is_ok());
                self.senders[s].sends_done += 1;
                self.senders[s].req = Some(r);
            }
            Poll::Pending => {
                if !admitted {
                    mc::machinery_error("request pending without an inner send");
                }
                self.senders[s].fut = Some(fut);
                self.senders[s].req = Some(r);
                self.senders[s].cur_slot = Some(self.slots() - 1);
            }
        }
        if self.viols.is_empty() {
            self.check_state(format!("state_after_request:{}", before_model.name()), &ctx);
        }
        self.after_step(format!("start {s} {} -> {}", kind.show(), if admitted { "admitted" } else { "rejected" }));
    }

    fn complete(&mut self, s: usize, ok: bool) {
        let (Some(mut fut), Some(r), Some(slot)) = (self.senders[s].fut.take(), self.senders[s].req, self.senders[s].cur_slot) else {
            mc::machinery_error("complete on a sender that is not in flight");
        };
        self.mock.st.lock().unwrap().slots[slot].1 = Some(ok);
        let slots_before = self.slots();
        let waker = futures::task::noop_waker();
        let mut cx = Context::from_waker(&waker);
        match fut.as_mut().poll(&mut cx) {
            Poll::Pending => {
                // a batch moved on to its next event
                if self.slots() != slots_before + 1 || !ok {
                    mc::machinery_error("request still pending without a new inner send");
                }
                self.reqs[r].inner_done += 1;
                self.senders[s].fut = Some(fut);
                self.senders[s].cur_slot = Some(self.slots() - 1);
                self.after_step(format!("complete {s} ok -> next event of the batch"));
            }
            Poll::Ready(res) => {
                drop(fut);
                if !ok {
                    self.reqs[r].failed_at = Some(self.reqs[r].inner_done);
                    self.real_age = Some(0);
                } else {
                    self.reqs[r].inner_done += 1;
                }
                self.reqs[r].done = Some(res.is_ok());
                self.senders[s].cur_slot = None;
                self.senders[s].sends_done += 1;
                let before_model = self.model.b;
                let was_probe = self.model.probe == Some(r);
                let decided = self.model.on_complete(r, ok);
                let ctx = format!(
                    "request #{r}{} completes with {} while the breaker is {}",
                    if was_probe { " (the probe)" } else { "" },
                    if ok { "success" } else { "failure" },
                    before_model.name()
                );
                if decided {
                    self.check_state(format!("state_after_{}:{}", if ok { "success" } else { "failure" }, before_model.name()), &ctx);
                } else {
                    let real = self.cb.state();
                    self.model.adopt(real);
                }
                self.after_step(format!("complete {s} {} -> request done", if ok { "ok" } else { "fail" }));
            }
        }
    }

    fn tick(&mut self) {
        if let Some(a) = self.real_age {
            if a < AGE_CAP {
                self.cb.verif_backdate(Duration::from_secs(TICK_S as u64));
                self.real_age = Some(a + TICK_S);
            }
        }
        self.model.tick();
        self.after_step("tick".into());
    }

    /// Accounting at the end of the execution: every event of a completed request is delivered xor
    /// dead-lettered as a readable entry naming the sink and the error.
    fn finish(mut self) -> ExecResult {
        for s in &mut self.senders {
            s.fut = None;
        }
        let text = WORKER_READER.with(|cell| {
            use std::io::{Read, Seek, SeekFrom};
            let mut slot = cell.borrow_mut();
            let mut t = String::new();
            // the reader handle stays open across executions of this worker; re-opened after a truncation
            let r = (|| -> std::io::Result<()> {
                if self.dlq_offset == 0 || slot.is_none() {
                    *slot = Some(std::fs::File::open(&self.dlq_path)?);
                    slot.as_mut().unwrap().seek(SeekFrom::Start(self.dlq_offset))?;
                }
                slot.as_mut().unwrap().read_to_string(&mut t)?;
                Ok(())
            })();
            if let Err(e) = r {
                mc::machinery_error(&format!("cannot read DLQ file {:?}: {e}", self.dlq_path));
            }
            t
        });
        WORKER_DLQ.with(|c| c.set((c.get().0, self.dlq_offset + text.len() as u64)));
        let mut entries: BTreeMap<i64, Vec<(String, String)>> = BTreeMap::new();
        let mut bad_lines = 0usize;
        for line in text.lines() {
            match serde_json::from_str::<Value>(line) {
                Ok(v) if v["event"]["data"]["id"].is_i64() => {
                    let id = v["event"]["data"]["id"].as_i64().unwrap();
                    entries.entry(id).or_default().push((v["connector"].as_str().unwrap_or("").to_string(), v["error"].as_str().unwrap_or("").to_string()));
                }
                _ => bad_lines += 1,
            }
        }
        if bad_lines > 0 {
            self.violate("dlq_entry:unreadable", format!("{bad_lines} dead-letter line(s) are not readable JSON entries carrying the event"));
        }
        let delivered: HashSet<i64> = self.mock.st.lock().unwrap().delivered.iter().copied().collect();
        let mut n_delivered = 0usize;
        let mut n_dlq = 0usize;
        for r in 0..self.reqs.len() {
            let (kind, admitted, done, failed_at) = (self.reqs[r].kind, self.reqs[r].admitted, self.reqs[r].done, self.reqs[r].failed_at);
            if done.is_none() {
                continue;
            }
            let fate = match (admitted, failed_at) {
                (false, _) => "rejected_by_breaker",
                (true, None) => "downstream_success",
                (true, Some(0)) => "downstream_failure_at_first_event",
                (true, Some(_)) => "downstream_failure_after_partial_delivery",
            };
            let kname = if kind == Kind::Single { "single" } else { "batch" };
            for (pos, id) in self.reqs[r].ids.clone().into_iter().enumerate() {
                let d = delivered.contains(&id);
                let q = entries.get(&id);
                n_delivered += d as usize;
                n_dlq += q.is_some() as usize;
                match (d, q) {
                    (false, None) => self.violate(&format!("accounting:lost:{kname}:{fate}"), format!("event {id} (position {pos} of request #{r}, {}) is neither delivered nor in the dead-letter queue", kind.show())),
                    (true, Some(_)) => self.violate(
                        &format!("accounting:delivered_and_dead_lettered:{kname}:{fate}"),
                        format!("event {id} (position {pos} of request #{r}, {}, inner failure at position {failed_at:?}) was delivered to the sink and is also in the dead-letter queue", kind.show()),
                    ),
                    (false, Some(es)) => {
                        for (conn, err) in es {
                            if conn != SINK_NAME {
                                self.violate("dlq_entry:wrong_connector", format!("dead-letter entry of event {id} names connector {conn:?}, the sink is {SINK_NAME:?}"));
                            }
                            let want = failed_at.map(|p| downstream_error(self.reqs[r].ids[p]));
                            let good = match &want {
                                Some(w) => err == w,
                                None => !err.trim().is_empty(),
                            };
                            if !good {
                                self.violate(&format!("dlq_entry:error_not_named:{fate}"), format!("dead-letter entry of event {id} carries error {err:?} (downstream error was {want:?})"));
                            }
                        }
                    }
                    (true, None) => {}
                }
            }
        }
        ExecResult { steps: self.steps, trace: self.trace, viols: self.viols, opened: self.opened, max_in_flight: self.max_in_flight, state_hashes: self.state_hashes, n_delivered, n_dlq, threshold: self.model.n, n_senders: self.senders.len() }
    }
}

struct ExecResult {
    steps: Vec<Step>,
    trace: Vec<String>,
    viols: Vec<(String, String)>,
    opened: bool,
    max_in_flight: usize,
    state_hashes: Vec<u64>,
    n_delivered: usize,
    n_dlq: usize,
    threshold: u32,
    n_senders: usize,
}
impl ExecResult {
    fn case_json(&self) -> Value {
        json!({"threshold": self.threshold, "n_senders": self.n_senders, "reset_timeout_s": TIMEOUT_S, "tick_s": TICK_S,
               "steps": self.steps.iter().map(|s| s.show()).collect::<Vec<_>>()})
    }
}

fn run_steps(n: u32, n_senders: usize, steps: &[Step], dir: &Path) -> ExecResult {
    let mut e = Exec::new(n, n_senders, dir);
    for s in steps {
        e.apply(*s);
        if !e.viols.is_empty() {
            break;
        }
    }
    e.finish()
}

// ---------------------------------------------------------------------------------------------
// State bookkeeping (distinct canonical states across workers)

struct StateSet {
    global: Mutex<HashSet<u64>>,
}
thread_local! {
    static LOCAL_SEEN: std::cell::RefCell<HashSet<u64>> = std::cell::RefCell::new(HashSet::new());
}
impl StateSet {
    fn add(&self, hs: &[u64]) {
        LOCAL_SEEN.with(|l| {
            let mut l = l.borrow_mut();
            let fresh: Vec<u64> = hs.iter().copied().filter(|h| l.insert(*h)).collect();
            if !fresh.is_empty() {
                self.global.lock().unwrap().extend(fresh);
            }
        });
    }
}

fn record(res: &ExecResult, mode: &str, nontrivial: bool, acc: &mut Acc, states: &StateSet) {
    acc.evaluations += 1;
    acc.count("transitions", res.steps.len() as u64);
    acc.count("events_delivered", res.n_delivered as u64);
    acc.count("events_dead_lettered", res.n_dlq as u64);
    if nontrivial {
        acc.nontrivial += 1;
    }
    acc.outcome(&res.trace);
    states.add(&res.state_hashes);
    for (sig, desc) in &res.viols {
        let mut cj = res.case_json();
        cj["mode"] = json!(mode);
        cj["trace"] = json!(res.trace);
        let steps: Vec<String> = res.steps.iter().map(|s| s.show()).collect();
        // size: steps first, then simpler request kinds, then fewer senders
        let weight: usize = res.steps.iter().map(|s| if let Step::Start(_, Kind::Batch(b)) = s { *b } else { 0 }).sum();
        acc.viol.add(sig.clone(), format!("threshold {} [{}]: {desc}", res.threshold, steps.join(", ")), cj, res.steps.len() * 64 + weight.min(15) * 4 + res.n_senders.min(3));
    }
}

// ---------------------------------------------------------------------------------------------
// E2: sequential sequences

#[derive(Clone, Copy, Debug, PartialEq, Eq)]
enum Sym {
    Req(Kind, Option<usize>),
    Tick,
}
/// alphabets, simplest symbol first
fn seq_alphabet(which: char) -> Vec<Sym> {
    let mut v = Vec::new();
    let push_kind = |v: &mut Vec<Sym>, k: Kind| {
        v.push(Sym::Req(k, None));
        for p in 0..k.len() {
            v.push(Sym::Req(k, Some(p)));
        }
    };
    match which {
        'A' => push_kind(&mut v, Kind::Single),
        'B' => {
            for k in [Kind::Single, Kind::Batch(1), Kind::Batch(2), Kind::Batch(3)] {
                push_kind(&mut v, k);
            }
        }
        'C' => push_kind(&mut v, Kind::Batch(2)),
        _ => unreachable!(),
    }
    v.push(Sym::Tick);
    v
}

fn run_sequence(n: u32, syms: &[Sym], dir: &Path) -> ExecResult {
    let mut e = Exec::new(n, 1, dir);
    'outer: for sym in syms {
        match *sym {
            Sym::Tick => e.apply(Step::Tick),
            Sym::Req(kind, fail_at) => {
                e.apply(Step::Start(0, kind));
                let mut pos = 0usize;
                while e.viols.is_empty() && e.in_flight(0) {
                    e.apply(Step::Complete(0, Some(pos) != fail_at));
                    pos += 1;
                }
            }
        }
        if !e.viols.is_empty() {
            break 'outer;
        }
    }
    e.finish()
}

// ---------------------------------------------------------------------------------------------
// E3: concurrent senders

#[derive(Clone, Debug)]
struct Cfg {
    n: u32,
    pre_fail: u32,
    pre_ticks: u32,
    kinds: Vec<Kind>,
    rounds: usize,
    max_ticks: u32,
}

fn enabled(e: &Exec, cfg: &Cfg, ticks_used: u32) -> Vec<Step> {
    let mut v = Vec::new();
    let ns = cfg.kinds.len();
    for s in 0..ns {
        if e.in_flight(s) {
            v.push(Step::Complete(s, true));
            v.push(Step::Complete(s, false));
        }
    }
    for s in 0..ns {
        if !e.in_flight(s) && e.senders[s].sends_done < cfg.rounds {
            // interchangeable idle senders: only the lowest index starts
            let dup = (0..s).any(|j| !e.in_flight(j) && cfg.kinds[j] == cfg.kinds[s] && e.senders[j].sends_done == e.senders[s].sends_done);
            if !dup {
                v.push(Step::Start(s, cfg.kinds[s]));
            }
        }
    }
    if !v.is_empty() && ticks_used < cfg.max_ticks {
        v.push(Step::Tick);
    }
    v
}

/// run the schedule selected by `choices` (0 beyond its end); returns the (choice, #enabled) path
fn run_schedule(cfg: &Cfg, choices: &[usize], dir: &Path) -> (Vec<(usize, usize)>, ExecResult) {
    let ns = cfg.kinds.len();
    let mut e = Exec::new(cfg.n, ns + 1, dir);
    // preamble on the extra sender: consecutive failures, then ticks
    for _ in 0..cfg.pre_fail {
        if !e.viols.is_empty() {
            break;
        }
        e.apply(Step::Start(ns, Kind::Single));
        if e.viols.is_empty() && e.in_flight(ns) {
            e.apply(Step::Complete(ns, false));
        }
    }
    for _ in 0..cfg.pre_ticks {
        if e.viols.is_empty() {
            e.apply(Step::Tick);
        }
    }
    let mut path = Vec::new();
    let mut ticks_used = 0;
    while e.viols.is_empty() {
        let en = enabled(&e, cfg, ticks_used);
        if en.is_empty() {
            break;
        }
        let c = choices.get(path.len()).copied().unwrap_or(0);
        path.push((c, en.len()));
        if en[c] == Step::Tick {
            ticks_used += 1;
        }
        e.apply(en[c]);
    }
    (path, e.finish())
}

fn explore_config(cfg: &Cfg, dir: &Path, acc: &mut Acc, states: &StateSet, deadline: &Deadline) -> bool {
    let mut choices: Vec<usize> = Vec::new();
    let mut k = 0u64;
    loop {
        if k % 256 == 0 && deadline.expired() {
            return false;
        }
        k += 1;
        let (mut path, res) = run_schedule(cfg, &choices, dir);
        record(&res, "concurrent", res.opened && res.max_in_flight >= 2, acc, states);
        acc.count("schedules", 1);
        acc.count(&format!("schedules[{} x{} ticks<={}]", cfg.kinds.iter().map(|k| k.show()).collect::<Vec<_>>().join("+"), cfg.rounds, cfg.max_ticks), 1);
        if k == 1 {
            acc.sample(|| json!({"mode":"concurrent","case":res.case_json(),"trace":res.trace}));
        }
        // odometer: advance the last position that still has an untried alternative
        loop {
            match path.pop() {
                None => return true,
                Some((c, n)) if c + 1 < n => {
                    path.push((c + 1, n));
                    break;
                }
                Some(_) => {}
            }
        }
        choices = path.iter().map(|(c, _)| *c).collect();
    }
}

// ---------------------------------------------------------------------------------------------
// Driver

pub fn run(args: &Args) -> ! {
    self_test();
    if Instant::now().checked_sub(Duration::from_secs((AGE_CAP + TICK_S) as u64)).is_none() {
        mc::machinery_error("monotonic clock is younger than the virtual-time window (system uptime < 100 s); retry later");
    }
    let mut rep = Report::new(args, "model_checking");
    let root = mc::scratch_dir("C45");
    let states = StateSet { global: Mutex::new(HashSet::new()) };

    if let Some(path) = &args.replay {
        let case = mc::load_replay(path);
        let n = case["threshold"].as_u64().unwrap_or_else(|| mc::machinery_error("replay: threshold")) as u32;
        let ns = case["n_senders"].as_u64().unwrap_or(1) as usize;
        let steps: Vec<Step> = case["steps"].as_array().unwrap_or_else(|| mc::machinery_error("replay: steps")).iter().map(|s| Step::parse(s.as_str().unwrap_or(""))).collect();
        let res = run_steps(n, ns, &steps, &root);
        for t in &res.trace {
            println!("  {t}");
        }
        let mut acc = Acc::default();
        record(&res, case["mode"].as_str().unwrap_or("replay"), true, &mut acc, &states);
        rep.absorb(acc);
        let _ = std::fs::remove_dir_all(&root);
        rep.finish();
    }

    let deadline = Deadline::after(Duration::from_secs(args.tier.pick(32, 1000)));

    // ---- E2: sequential
    let seq_spaces: Vec<(char, usize)> = vec![('A', args.tier.pick(9, 12)), ('C', args.tier.pick(6, 9)), ('B', args.tier.pick(4, 5))];
    // determinism gate: first and last sequence of every alphabet, twice
    for (which, len) in &seq_spaces {
        let alpha = seq_alphabet(*which);
        let space = mc::SeqSpace::new(alpha.len(), 1, *len);
        for i in [0, space.total() - 1] {
            let mut d = Vec::new();
            space.decode(i, &mut d);
            let syms: Vec<Sym> = d.iter().map(|k| alpha[*k]).collect();
            let a = run_sequence(4, &syms, &root);
            let b = run_sequence(4, &syms, &root);
            if a.trace != b.trace || a.viols != b.viols {
                mc::machinery_error(&format!("C45 sequential replay not deterministic: {:?} vs {:?}", a.trace, b.trace));
            }
        }
    }
    for (which, len) in &seq_spaces {
        let alpha = seq_alphabet(*which);
        let space = mc::SeqSpace::new(alpha.len(), 1, *len);
        let total = space.total();
        let (acc, done) = mc::par_indices(total * 4, args.threads, 512, |i, acc| {
            if i % 512 == 0 && deadline.expired() {
                return false;
            }
            let n = (i % 4) as u32 + 1;
            let mut d = Vec::new();
            space.decode(i / 4, &mut d);
            let syms: Vec<Sym> = d.iter().map(|k| alpha[*k]).collect();
            let res = run_sequence(n, &syms, &root);
            record(&res, "sequential", res.opened, acc, &states);
            if i == total * 4 - 1 {
                acc.samples.push(json!({"mode":"sequential","alphabet":which.to_string(),"case":res.case_json(),"trace":res.trace}));
            }
            true
        });
        if !done {
            rep.cap_hit(&format!("wall cap during sequential alphabet {which} (length <= {len})"));
        }
        rep.set(&format!("sequential_{which}_sequences_per_threshold"), json!(total));
        rep.set(&format!("sequential_{which}_max_len"), json!(len));
        rep.set(&format!("sequential_{which}_alphabet"), json!(alpha.len()));
        rep.absorb(acc);
    }

    // ---- E3: concurrent
    let mut cfgs: Vec<Cfg> = Vec::new();
    let s = Kind::Single;
    let b = Kind::Batch(2);
    let setups: Vec<(Vec<Kind>, usize, u32)> = match args.tier {
        mc::Tier::Quick => vec![(vec![s, s], 1, 2), (vec![s, s, s], 1, 2), (vec![s, s], 2, 1), (vec![b, s], 1, 2)],
        mc::Tier::Thorough => vec![
            (vec![s, s], 1, 3),
            (vec![s, s, s], 1, 3),
            (vec![s, s], 2, 3),
            // senders of different kinds are not interchangeable, so every start order of a mixed
            // setup is already enumerated: permutations of a setup would repeat the same schedules
            (vec![b, s], 1, 3),
            (vec![b, b], 1, 3),
            (vec![b, s, s], 1, 2),
            (vec![s, s, s], 2, 0),
        ],
    };
    for (kinds, rounds, max_ticks) in &setups {
        for n in 1..=4u32 {
            for pre_fail in 0..=n {
                for pre_ticks in 0..=2u32 {
                    cfgs.push(Cfg { n, pre_fail, pre_ticks, kinds: kinds.clone(), rounds: *rounds, max_ticks: *max_ticks });
                }
            }
        }
    }
    // determinism gate: first schedule of the first and the last configuration, twice
    for cfg in [cfgs.first().unwrap(), cfgs.last().unwrap()] {
        let a = run_schedule(cfg, &[], &root);
        let b2 = run_schedule(cfg, &[], &root);
        if a.1.trace != b2.1.trace || a.0 != b2.0 {
            mc::machinery_error(&format!("C45 concurrent replay not deterministic for {cfg:?}"));
        }
    }
    // largest configurations first so the workers stay balanced
    let mut order: Vec<usize> = (0..cfgs.len()).collect();
    order.sort_by_key(|i| std::cmp::Reverse((cfgs[*i].kinds.iter().map(|k| k.len()).sum::<usize>() * cfgs[*i].rounds, cfgs[*i].max_ticks)));
    let (acc, done) = mc::par_indices(order.len() as u64, args.threads, 1, |i, acc| explore_config(&cfgs[order[i as usize]], &root, acc, &states, &deadline));
    if !done {
        rep.cap_hit("wall cap during concurrent schedule enumeration");
    }
    rep.set("concurrent_configurations", json!(cfgs.len()));
    rep.set("concurrent_setups", json!(setups.iter().map(|(k, r, t)| json!({"senders": k.iter().map(|x| x.show()).collect::<Vec<_>>(), "sends_per_sender": r, "max_ticks": t})).collect::<Vec<_>>()));
    rep.absorb(acc);
    let _ = std::fs::remove_dir_all(&root);

    rep.states = states.global.lock().unwrap().len() as u64;
    rep.transitions = rep.extra.get("transitions").and_then(|v| v.as_u64()).unwrap_or(0);
    rep.traces = rep.evaluations;
    rep.rule = format!(
        "Real ResilientSink futures over the real CircuitBreaker (thresholds 1..=4, reset timeout {TIMEOUT_S} s, virtual clock in ticks of {TICK_S} s by back-dating) and the real DeadLetterQueue file; mock inner sink completing on command. (E2) every sequence of length 1..=L per threshold over alphabet A = {{send ok, send fail, tick}}, C = {{batch2 ok, batch2 failing at event 0/1, tick}}, B = {{send, batch1, batch2, batch3}} x {{ok, failing at each position}} + tick. (E3) for every threshold n, every preamble of 0..=n consecutive failures followed by 0..=2 ticks, every interleaving of {{start the next sender, complete a pending inner send with ok/fail, tick (bounded)}} for the listed sender setups (interchangeable idle senders start in index order); every schedule runs to completion unless a violation stops it. Each execution checks admission and breaker state against the reference automaton after every step and delivered-xor-dead-lettered accounting (readable entry, connector, error) for every event of every completed request at the end. states = distinct (threshold, automaton state, per-sender status) reached; transitions = steps executed; traces = executions. Non-trivial = the breaker left Closed (sequential) / left Closed and at least two requests were in flight together (concurrent)."
    );
    rep.assume("CircuitBreaker and DeadLetterQueue do all shared-state access inside one critical section per public method, ResilientSink holds no state of its own: every thread interleaving is equivalent to an interleaving of whole method calls, which is what polling the real futures step by step enumerates (await points are the only places where senders interleave)");
    rep.assume("virtual time by back-dating adds the real run time of an execution (far below 1 s) to every age; ticks keep every comparison at least 10 s away from the 40 s timeout; ages saturate at 75 s (further ticks are not applied: they are unobservable through `elapsed() >= reset_timeout`)");
    rep.assume("don't-care: from which instant the reset timeout counts when a request admitted earlier fails while the breaker is already open (rejection is required while neither reading has passed the timeout, admission once both have)");
    rep.assume("don't-care: the effect on a half-open breaker of the completion of a request that was admitted before it opened (the text speaks only of the probe's completion); the reference automaton follows the implementation there");
    rep.assume("don't-care: the Result returned by send/send_batch, duplicate dead-letter lines for one event, and the error text of entries written for breaker rejections (any non-empty text); for downstream failures the entry must carry the downstream error text");
    rep.assume("a batch handed to send_batch counts as one request for the breaker (one success or one failure); 'delivered' means the mock inner sink completed that event's send with Ok");
    rep.finish();
}
