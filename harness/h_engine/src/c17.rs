//! C17 — each stream processes each routed event exactly once (derived chains up to depth 10).
//!
//! Observation: the cfg(varpulis_verif) recorder `verif::deliveries` logs `(stream, event)` every time
//! an event is handed to a stream pipeline. Oracle: a reference model of the *declared* topology —
//! a stream consumes the names in its declaration (event types or stream names); interior streams are
//! plain filters (`where(v > c)`, with or without `.emit(id, k, v)`) whose outputs the model predicts
//! exactly; other templates (window, sequence, join, .process) only appear as leaves whose outputs
//! nobody consumes. Every external event (depth 0) and every derived output of depth 1..=9 must be
//! handed exactly once to each declared consumer; outputs of depth >= 10 (beyond the documented limit)
//! may be handed at most once; nothing else may be handed to anybody.

use crate::common::*;
use mc::{Acc, Args, Deadline, Multiset, Report, SeqSpace};
use serde_json::{json, Value as J};
use std::collections::{BTreeMap, VecDeque};
use std::time::Duration;

const DOC_DEPTH: usize = 10;
const MODEL_DEPTH: usize = 14;

// ------------------------------------------------------------------------------------------------
// Reference model (declared topology)

#[derive(Clone, Debug)]
struct MEvent {
    ty: String,
    /// field -> displayed value
    fields: BTreeMap<String, String>,
    v: i64,
}

fn m_describe(e: &MEvent) -> String {
    let mut d: Vec<String> = e.fields.iter().map(|(k, v)| format!("{k}={v}")).collect();
    d.sort();
    format!("{}{{{}}}", e.ty, d.join(","))
}

fn m_external(e: &Ev, pos: usize) -> MEvent {
    let mut fields = BTreeMap::new();
    fields.insert("id".to_string(), pos.to_string());
    fields.insert("k".to_string(), format!("\"{}\"", KEYS[e.k as usize]));
    fields.insert("v".to_string(), e.v.to_string());
    MEvent { ty: TYPES[e.t as usize].to_string(), fields, v: e.v }
}

/// Output of a filter stream for one input (both filter templates keep id, k, v and take the
/// stream's name as type); `None` for the other templates (they are leaves) or when filtered out.
fn m_output(s: &StreamSpec, e: &MEvent) -> Option<MEvent> {
    let c = match s.tpl {
        Tpl::FilterEmit(c) | Tpl::FilterNoEmit(c) => c,
        _ => return None,
    };
    if e.v > c {
        Some(MEvent { ty: s.name.clone(), fields: e.fields.clone(), v: e.v })
    } else {
        None
    }
}

type Deliveries = Multiset<(String, String)>;

struct Expected {
    must: Deliveries,
    may: Deliveries,
    derived: bool,
}

fn expected(streams: &[StreamSpec], evs: &[Ev]) -> Expected {
    let mut must = Deliveries::new();
    let mut may = Deliveries::new();
    let mut derived = false;
    let mut q: VecDeque<(MEvent, usize)> = evs.iter().enumerate().map(|(i, e)| (m_external(e, i), 0)).collect();
    while let Some((e, d)) = q.pop_front() {
        if d >= MODEL_DEPTH {
            continue;
        }
        for s in streams {
            if !s.consumes().iter().any(|c| *c == e.ty) {
                continue;
            }
            let key = (s.name.clone(), m_describe(&e));
            if d < DOC_DEPTH {
                *must.entry(key).or_insert(0) += 1;
                derived |= d >= 1;
            } else {
                *may.entry(key).or_insert(0) += 1;
            }
            if let Some(o) = m_output(s, &e) {
                q.push_back((o, d + 1));
            }
        }
    }
    Expected { must, may, derived }
}

/// Is the program inside the model's domain? (only filters are consumed by other streams)
fn modelled(streams: &[StreamSpec]) -> bool {
    streams.iter().all(|s| {
        matches!(s.tpl, Tpl::FilterEmit(_) | Tpl::FilterNoEmit(_)) || !streams.iter().any(|o| o.consumes().iter().any(|c| *c == s.name))
    })
}

fn model_self_test() {
    use Tpl::*;
    let a = |v| Ev { t: 0, k: 0, v };
    let b = |v| Ev { t: 1, k: 0, v };
    let d = |s: &str, e: &str| (s.to_string(), e.to_string());
    // chain: D1 = A.where(v>0).emit, D2 = D1.where(v>1) ; one A with v=2 -> D1 gets A, D2 gets D1's output
    let chain = vec![StreamSpec::new("D1", FilterEmit(0), &["A"]), StreamSpec::new("D2", FilterNoEmit(1), &["D1"])];
    let e = expected(&chain, &[a(2)]);
    assert_eq!(e.must, mc::multiset(vec![d("D1", "A{id=0,k=\"x\",v=2}"), d("D2", "D1{id=0,k=\"x\",v=2}")]));
    assert!(e.may.is_empty() && e.derived);
    // a B event reaches nobody; v=1 does not pass D2 but is still handed to it
    let e = expected(&chain, &[b(2), a(1)]);
    assert_eq!(e.must, mc::multiset(vec![d("D1", "A{id=1,k=\"x\",v=1}"), d("D2", "D1{id=1,k=\"x\",v=1}")]));
    // diamond + stream named like an event type: stream B = A.where(v>1); S = B.where(v>0): S gets external B and B's outputs
    let named = vec![StreamSpec::new("B", FilterEmit(1), &["A"]), StreamSpec::new("S", FilterEmit(0), &["B"])];
    let e = expected(&named, &[a(2), b(1), a(1)]);
    assert_eq!(
        e.must,
        mc::multiset(vec![d("B", "A{id=0,k=\"x\",v=2}"), d("S", "B{id=0,k=\"x\",v=2}"), d("S", "B{id=1,k=\"x\",v=1}"), d("B", "A{id=2,k=\"x\",v=1}")])
    );
    // self loop: stream A = A.where(v>0): handed depth 0..9 (10 times, must), 10..13 (4 times, may)
    let lp = vec![StreamSpec::new("A", FilterNoEmit(0), &["A"])];
    let e = expected(&lp, &[a(1)]);
    assert_eq!(e.must.get(&d("A", "A{id=0,k=\"x\",v=1}")), Some(&10));
    assert_eq!(e.may.get(&d("A", "A{id=0,k=\"x\",v=1}")), Some(&(MODEL_DEPTH - DOC_DEPTH)));
    // sequence leaf consumes its first step and B; join consumes both sides
    let leaf = vec![StreamSpec::new("Q", Seq(2), &["A"]), StreamSpec::new("J", Join, &["A", "B"])];
    let e = expected(&leaf, &[b(1)]);
    assert_eq!(e.must, mc::multiset(vec![d("Q", "B{id=0,k=\"x\",v=1}"), d("J", "B{id=0,k=\"x\",v=1}")]));
    assert!(modelled(&leaf) && modelled(&chain));
    assert!(!modelled(&[StreamSpec::new("W", CountAgg(2), &["A"]), StreamSpec::new("S", FilterEmit(0), &["W"])]));
    // chain of 11: the 11th stream is beyond the documented depth (may, not must)
    let long = long_chain(11, false);
    let e = expected(&long, &[a(2)]);
    assert_eq!(e.must.len(), 10);
    assert_eq!(e.may.len(), 1);
}

// ------------------------------------------------------------------------------------------------
// Program space

fn long_chain(n: usize, noemit: bool) -> Vec<StreamSpec> {
    (1..=n)
        .map(|i| {
            let src = if i == 1 { "A".to_string() } else { format!("C{}", i - 1) };
            let tpl = if noemit && i % 2 == 0 { Tpl::FilterNoEmit(0) } else { Tpl::FilterEmit(0) };
            StreamSpec::new(&format!("C{i}"), tpl, &[src.as_str()])
        })
        .collect()
}

fn catalogue() -> Vec<Vec<StreamSpec>> {
    use Tpl::*;
    let sp = StreamSpec::new;
    let mut v = vec![
        // self loops and streams named like event types
        vec![sp("A", FilterNoEmit(0), &["A"])],
        vec![sp("A", FilterEmit(1), &["A"])],
        vec![sp("B", FilterEmit(0), &["A"]), sp("S", FilterEmit(1), &["B"])],
        vec![sp("B", FilterNoEmit(0), &["A"]), sp("A", FilterNoEmit(1), &["B"])],
        // leaves of every other template beside / below filters
        vec![sp("D1", FilterEmit(0), &["A"]), sp("Q", Seq(2), &["D1"])],
        vec![sp("D1", FilterEmit(0), &["A"]), sp("J", Join, &["D1", "B"])],
        vec![sp("D1", FilterEmit(0), &["A"]), sp("W", CountAgg(2), &["D1"])],
        vec![sp("D1", FilterEmit(0), &["A"]), sp("Q", Seq(2), &["D1"]), sp("J", Join, &["A", "B"]), sp("W", CountAgg(2), &["A"])],
        vec![sp("D1", FilterNoEmit(0), &["A"]), sp("W", CountAgg(2), &["D1"]), sp("P", Process, &["D1"]), sp("Q", Seq(3), &["B"])],
        vec![sp("D1", FilterEmit(1), &["A"]), sp("J", Join, &["D1", "B"]), sp("N", FilterNoEmit(0), &["A"])],
        // diamond of 5
        vec![sp("D1", FilterEmit(0), &["A"]), sp("L", FilterEmit(1), &["D1"]), sp("R", FilterNoEmit(0), &["D1"]), sp("X", FilterEmit(0), &["L"]), sp("Y", FilterNoEmit(0), &["R"])],
    ];
    for n in [9, 10, 11, 12] {
        v.push(long_chain(n, false));
        v.push(long_chain(n, true));
    }
    v
}

/// Every program of exactly `n` filter streams: stream i consumes A, B or an earlier stream; templates
/// from `tpls`; the first stream is named `first_name`, the others S2..Sn.
fn generate(n: usize, tpls: &[Tpl], first_name: &str) -> Vec<Vec<StreamSpec>> {
    let mut level: Vec<Vec<StreamSpec>> = vec![vec![]];
    for i in 1..=n {
        let mut next = Vec::new();
        for base in &level {
            let name = if i == 1 { first_name.to_string() } else { format!("S{i}") };
            let mut sources: Vec<String> = vec!["A".into(), "B".into()];
            for s in base {
                if !sources.contains(&s.name) {
                    sources.push(s.name.clone());
                }
            }
            for t in tpls {
                for s in &sources {
                    let mut p = base.clone();
                    p.push(StreamSpec::new(&name, *t, &[s.as_str()]));
                    next.push(p);
                }
            }
        }
        level = next;
    }
    level.retain(|p| max_noemit_leaf_siblings(p) <= 2);
    level
}

/// Largest number of emit-less streams without consumers that consume one and the same name.
/// The generated space is bounded to <= 2: on the synchronous path every such stream re-queues its
/// input, so k of them turn one event into k^10 hand-offs (k = 4: 10^6 per event).
fn max_noemit_leaf_siblings(p: &[StreamSpec]) -> usize {
    // (a stream that consumes its own name multiplies in the same way and is counted with them)
    let leaf = |s: &StreamSpec| (matches!(s.tpl, Tpl::FilterNoEmit(_)) && !p.iter().any(|o| o.consumes().contains(&s.name))) || s.consumes().contains(&s.name);
    let mut names: Vec<String> = p.iter().flat_map(|s| s.consumes()).collect();
    names.sort();
    names.dedup();
    names.iter().map(|n| p.iter().filter(|s| leaf(s) && s.consumes().contains(n)).count()).max().unwrap_or(0)
}

// ------------------------------------------------------------------------------------------------
// Check

fn signature(prog: &Prog, entry: Entry, stream: &str, class: &str) -> String {
    let e = entry.name();
    let Some(i) = prog.idx(stream) else {
        return format!("C17:{e}:unknown_stream:{class}");
    };
    if entry == Entry::Sync && class == "dup" && prog.beside_unconsumed_noemit().contains(&i) {
        return "C17:sync:noemit_reroute:dup".into();
    }
    let s = &prog.streams[i];
    let derived = if s.consumes().iter().any(|c| prog.idx(c).is_some()) { "derived_" } else { "" };
    let named = if prog.streams.iter().any(|s| TYPES.contains(&s.name.as_str())) { "typenamed_" } else { "" };
    format!("C17:{e}:{named}{derived}{}:{class}", s.tpl.class())
}

fn case_json(prog: &Prog, evs: &[Ev], entry: Entry, mask: u32) -> J {
    json!({"streams": prog.to_json(), "program": prog.text, "events": ev_json(evs), "events_readable": ev_readable(evs),
           "entry": entry.name(), "mask": mask, "batch_sizes": split_sizes(evs.len(), mask)})
}

fn check(prog: &Prog, evs: &[Ev], exp: &Expected, entry: Entry, mask: u32, acc: &mut Acc) {
    let out = run(&prog.ast, evs, entry, mask, true);
    acc.evaluations += 1;
    if exp.derived {
        acc.nontrivial += 1;
    }
    let got: Deliveries = mc::multiset(out.deliveries.iter().cloned());
    acc.outcome(&got);
    let report = |stream: &str, class: &str, what: String, acc: &mut Acc| {
        let desc = format!(
            "[{}] events {} as batches {:?} through {}: {what}",
            prog.label(),
            ev_readable(evs),
            if entry == Entry::Each { vec![1; evs.len()] } else { split_sizes(evs.len(), mask) },
            entry.name()
        );
        let size = crate::c16::case_size(prog, evs, mask) * 2 + prog.streams.iter().any(|s| TYPES.contains(&s.name.as_str())) as usize;
        acc.viol.add(signature(prog, entry, stream, class), desc, case_json(prog, evs, entry, mask), size);
    };
    if let Some(err) = out.outputs.iter().find(|l| l.starts_with('<')) {
        report("", "error", format!("the entry point failed: {err}"), acc);
        return;
    }
    for (key, n) in &got {
        let (m, x) = (exp.must.get(key).copied().unwrap_or(0), exp.may.get(key).copied().unwrap_or(0));
        if m + x == 0 {
            report(&key.0, "foreign", format!("stream {} was handed {} ({n}x), which the declared topology never routes to it", key.0, key.1), acc);
        } else if *n > m + x {
            report(&key.0, "dup", format!("stream {} was handed {} {n} times; the declared topology hands it {} time(s)", key.0, key.1, m), acc);
        }
    }
    for (key, m) in &exp.must {
        let n = got.get(key).copied().unwrap_or(0);
        if n < *m {
            report(&key.0, "loss", format!("stream {} was handed {} {n} time(s); the declared topology hands it {m} time(s) (depth < 10)", key.0, key.1), acc);
        }
    }
}

/// `whole_parse`: parse every program text with the real parser (and check that assembling the
/// per-declaration parses gives the same statements); otherwise only assemble.
fn sweep(rep: &mut Report, args: &Args, deadline: &Deadline, specs: Vec<Vec<StreamSpec>>, max_len: usize, what: &str, whole_parse: bool) {
    let t0 = std::time::Instant::now();
    if deadline.expired() {
        rep.cap_hit(&format!("wall cap before {what}"));
        return;
    }
    let al = alphabet(false);
    let space = SeqSpace::new(al.len(), 1, max_len);
    let nseq = space.total();
    let nprog = specs.len() as u64;
    debug_assert!(specs.iter().all(|s| modelled(s)));
    // parse on all threads; a program the engine refuses to load is outside the property (counted, not judged)
    let progs: Vec<Prog> = if whole_parse {
        let progs = build_all(specs, args.threads);
        for p in &progs {
            let a = Prog::assemble(p.streams.clone()).unwrap_or_else(|e| mc::machinery_error(&e));
            if !same_statements(&a.ast, &p.ast) {
                mc::machinery_error(&format!("per-declaration assembly differs from whole-program parse:\n{}", p.text));
            }
        }
        rep.add_count("programs_parsed_whole_and_equal_to_assembly", progs.len() as u64);
        progs
    } else {
        rep.add_count("programs_assembled_from_parsed_declarations", specs.len() as u64);
        specs.into_iter().map(|s| Prog::assemble(s).unwrap_or_else(|e| mc::machinery_error(&e))).collect()
    };
    let loadable: Vec<bool> = progs.iter().map(|p| block_on(async { fresh_engine(&p.ast).is_ok() })).collect();
    rep.set(&format!("{what}_programs_rejected_by_load"), json!(loadable.iter().filter(|l| !**l).count()));
    // one work item = (program, event sequence): reference model once, then every entry point x split
    let (acc, done) = mc::par_indices(nprog * nseq, args.threads, 4, |i, acc| {
        if deadline.expired() {
            return false;
        }
        let (pi, si) = ((i / nseq) as usize, i % nseq);
        if !loadable[pi] {
            return true;
        }
        let prog = &progs[pi];
        let mut idx = Vec::new();
        space.decode(si, &mut idx);
        let evs: Vec<Ev> = idx.iter().map(|k| al[*k]).collect();
        let exp = expected(&prog.streams, &evs);
        check(prog, &evs, &exp, Entry::Each, 0, acc);
        for mask in 0..(1u32 << (evs.len() - 1)) {
            for entry in BATCHED {
                check(prog, &evs, &exp, entry, mask, acc);
            }
        }
        if i == nprog * nseq - 1 {
            acc.samples.push(json!({"phase": what, "program": prog.text, "events": ev_readable(&evs),
                "expected_deliveries": exp.must.iter().map(|((s, e), n)| format!("{s} <- {e} x{n}")).collect::<Vec<_>>()}));
        }
        true
    });
    if !done {
        rep.cap_hit(&format!("wall cap during {what}"));
    }
    rep.set(&format!("{what}_programs"), json!(nprog));
    rep.set(&format!("{what}_event_sequences_per_program"), json!(nseq));
    rep.set(&format!("{what}_wall_s"), json!(t0.elapsed().as_secs_f64()));
    rep.absorb(acc);
}

pub fn main(args: &Args) -> ! {
    let mut rep = Report::new(args, "exploration");
    model_self_test();
    if let Some(path) = &args.replay {
        let case = mc::load_replay(path);
        let mut acc = Acc::default();
        let prog = Prog::from_json(&case["streams"]).unwrap_or_else(|e| mc::machinery_error(&e));
        if !modelled(&prog.streams) {
            mc::machinery_error("replay: program outside the reference model (a non-filter stream is consumed)");
        }
        let evs = ev_from_json(&case["events"]);
        let entry = Entry::from_name(case["entry"].as_str().unwrap_or("")).unwrap_or_else(|| mc::machinery_error("replay: bad entry"));
        let mask = case["mask"].as_u64().unwrap_or(0) as u32;
        let exp = expected(&prog.streams, &evs);
        println!("REPLAY program:\n{}", prog.text);
        println!("REPLAY events: {} through {} as {:?}", ev_readable(&evs), entry.name(), split_sizes(evs.len(), mask));
        for ((s, e), n) in &exp.must {
            println!("REPLAY expected: {s} <- {e} x{n}");
        }
        for ((s, e), n) in mc::multiset(run(&prog.ast, &evs, entry, mask, true).deliveries) {
            println!("REPLAY observed: {s} <- {e} x{n}");
        }
        check(&prog, &evs, &exp, entry, mask, &mut acc);
        rep.absorb(acc);
        rep.finish();
    }
    let deadline = Deadline::after(Duration::from_secs(args.tier.pick(30, 1050)));
    use Tpl::*;
    let all = [FilterEmit(1), FilterNoEmit(1), FilterEmit(0), FilterNoEmit(0)];
    let strict = [FilterEmit(1), FilterNoEmit(1)];
    let thorough = args.tier == mc::Tier::Thorough;

    // (parsing dominates: the real parser spawns a 16 MB-stack thread per program)
    sweep(&mut rep, args, &deadline, catalogue(), 3, "catalogue", true);
    let mut named = Vec::new();
    for n in 1..=2 {
        for first in ["A", "B"] {
            named.extend(generate(n, &all, first));
        }
    }
    sweep(&mut rep, args, &deadline, named, args.tier.pick(2, 3), "filters_first_named_like_a_type", true);
    if thorough {
        let mut n3 = generate(3, &all, "A");
        n3.extend(generate(3, &all, "B"));
        sweep(&mut rep, args, &deadline, n3, 2, "filters_3_first_named_like_a_type", true);
    }
    let mut plain = Vec::new();
    for n in 1..=2 {
        plain.extend(generate(n, &all, "S1"));
    }
    sweep(&mut rep, args, &deadline, plain, args.tier.pick(2, 3), "filters_upto2", true);
    sweep(&mut rep, args, &deadline, generate(3, &all, "S1"), args.tier.pick(2, 3), "filters_3", thorough);
    if thorough {
        sweep(&mut rep, args, &deadline, generate(4, &all, "S1"), 2, "filters_4", false);
        let mut n4 = generate(4, &strict, "A");
        n4.extend(generate(4, &strict, "B"));
        sweep(&mut rep, args, &deadline, n4, 2, "filters_4_first_named_like_a_type_threshold1", false);
        sweep(&mut rep, args, &deadline, generate(5, &strict, "S1"), 2, "filters_5_threshold1", false);
    }

    rep.rule = "Exhaustive enumeration against a reference model of the declared topology. Programs: (1) catalogue: self-consuming streams and streams named like event types, filter streams with window / sequence / join / .process leaves, a 5-stream diamond, linear chains of 9..12 streams (with and without emit-less members) crossing the depth limit; (2) every program of n filter streams (where(v>c) with or without .emit(id,k,v), c in {0,1}) where stream i consumes A, B or an earlier stream: n <= 3 with the first stream named S1, n <= 2 (thorough: n <= 3) with the first stream named A or B; thorough adds n = 4 (first stream S1: all thresholds; first stream A or B: c = 1) and n = 5 (c = 1). Inputs: every event sequence of length 1..=max over types {A,B} x v {1,2} (max = *_event_sequences_per_program: 4+16 = 20 for max 2, 84 for max 3; catalogue 3; families of <= 3 streams 2 in quick and 3 in thorough, except 3 streams with a type-named first stream: 2; 4 and 5 streams: 2). Every (program, sequence) is executed on a fresh engine through Engine::process one by one and through process_batch, process_batch_sync, process_batch_shared with every batch split; the recorded (stream, event) hand-offs are compared as a multiset with the model. Non-trivial = the model expects at least one hand-off of a derived event (depth >= 1).".into();
    rep.assume("'within the documented chain depth of 10' is read as the code documents it: events of depth 0..=9 (external = 0) must be handed to their consumers; hand-offs of deeper derived events are a don't-care (allowed at most once)");
    rep.assume("a stream 'consumes' exactly the names in its declaration: its source, every step type of a sequence, both sides of a join; a stream named like an event type produces events of that type");
    rep.assume("only filter streams are consumed by other streams, so the model predicts every derived event exactly; window, sequence, join and .process streams appear as leaves");
    rep.assume("generated programs have at most two emit-less streams without consumers (or self-consuming streams) on one source name (bound of the space, chosen because k such streams cost k^10 hand-offs per event on the synchronous path of the unchanged tree)");
    rep.assume("programs of the families with 4 and 5 streams (and, in the quick tier, 3 streams) are assembled from stream declarations parsed one by one with the real parser (whole-program parsing costs ~8 ms per program); for the catalogue and every family with <= 2 (thorough: <= 3) streams the whole text is parsed and checked to give the same statements as the assembly");
    rep.assume("programs that Engine::load rejects are counted (*_programs_rejected_by_load) and not judged");
    rep.finish()
}
