//! Engine entry points, routing and hot reload: C16, C17, C23 — see DESIGN.md §3.

mod c16;
mod c17;
mod c23;
mod common;

fn main() {
    let args = mc::parse_args();
    common::self_test();
    mc::quiet_panics();
    match args.prop.as_str() {
        "C16" => c16::main(&args),
        "C17" => c17::main(&args),
        "C23" => c23::main(&args),
        other => mc::machinery_error(&format!("h_engine serves C16, C17 and C23, not {other}")),
    }
}
