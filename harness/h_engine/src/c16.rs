//! C16 — all event-processing entry points produce the same output sequence, for every batch split.
//!
//! Differential: the reference run feeds a fresh engine one event at a time through `Engine::process`;
//! every other execution feeds a fresh engine of the same program the same events through
//! `process_batch`, `process_batch_sync` or `process_batch_shared` with one of the 2^(n-1) batch
//! splits. The oracle is equality of the drained output sequences; it contains no expected value.

use crate::common::*;
use mc::{Acc, Args, Deadline, Report, SeqSpace};
use serde_json::{json, Value as J};
use std::time::Duration;

fn sp(name: &str, tpl: Tpl, srcs: &[&str]) -> StreamSpec {
    StreamSpec::new(name, tpl, srcs)
}

/// Hand-picked programs covering every shape named by the property, simplest first.
pub fn catalogue() -> Vec<(&'static str, Vec<StreamSpec>)> {
    use Tpl::*;
    vec![
        ("filter", vec![sp("S", FilterEmit(1), &["A"])]),
        ("noemit_only", vec![sp("S1", FilterNoEmit(0), &["A"])]),
        ("count_window", vec![sp("S", CountAgg(2), &["A"])]),
        ("sequence", vec![sp("S", Seq(2), &["A"])]),
        ("sequence3", vec![sp("S", Seq(3), &["A"])]),
        ("join", vec![sp("J", Join, &["A", "B"])]),
        ("process", vec![sp("P", Process, &["A"])]),
        ("two_streams", vec![sp("S1", FilterEmit(0), &["A"]), sp("S2", FilterEmit(1), &["A"])]),
        ("sequence_sibling", vec![sp("S", Seq(2), &["A"]), sp("S2", FilterEmit(1), &["A"])]),
        ("noemit_sibling", vec![sp("S1", FilterNoEmit(0), &["A"]), sp("S2", FilterEmit(1), &["A"])]),
        ("process_sibling", vec![sp("P", Process, &["A"]), sp("S2", FilterEmit(1), &["A"])]),
        ("chain", vec![sp("D1", FilterEmit(0), &["A"]), sp("D2", FilterEmit(1), &["D1"])]),
        ("chain_noemit_head", vec![sp("D1", FilterNoEmit(0), &["A"]), sp("D2", FilterEmit(1), &["D1"])]),
        ("chain_noemit_leaf", vec![sp("D1", FilterEmit(0), &["A"]), sp("D2", FilterNoEmit(1), &["D1"])]),
        ("chain_window", vec![sp("D1", FilterEmit(0), &["A"]), sp("W", CountAgg(2), &["D1"])]),
        ("chain_sequence", vec![sp("D1", FilterEmit(0), &["A"]), sp("Q", Seq(2), &["D1"])]),
        ("join_noemit", vec![sp("J", Join, &["A", "B"]), sp("S1", FilterNoEmit(0), &["A"])]),
        ("join_derived", vec![sp("D1", FilterEmit(0), &["A"]), sp("J", Join, &["D1", "B"])]),
        ("diamond", vec![sp("D1", FilterEmit(0), &["A"]), sp("L", FilterEmit(1), &["D1"]), sp("R", FilterEmit(0), &["D1"])]),
        ("diamond_noemit", vec![sp("D1", FilterEmit(0), &["A"]), sp("L", FilterEmit(1), &["D1"]), sp("R", FilterNoEmit(0), &["D1"])]),
        ("chain3", vec![sp("D1", FilterEmit(0), &["A"]), sp("D2", FilterEmit(0), &["D1"]), sp("D3", FilterEmit(1), &["D2"])]),
        // forks whose branches each have their own consumer: two derived events are pending at once
        // after a single input, so the traversal order of derived events becomes observable
        // (added after seeded change C16 slipped through the 3-stream grammar)
        ("fork_two_chains", vec![sp("D1", FilterEmit(0), &["A"]), sp("D2", FilterEmit(0), &["A"]), sp("E1", FilterEmit(0), &["D1"]), sp("E2", FilterEmit(0), &["D2"])]),
        ("diamond_deep", vec![sp("D1", FilterEmit(0), &["A"]), sp("L", FilterEmit(0), &["D1"]), sp("R", FilterEmit(0), &["D1"]), sp("LL", FilterEmit(1), &["L"]), sp("RR", FilterEmit(0), &["R"])]),
        ("fork_uneven", vec![sp("D1", FilterEmit(0), &["A"]), sp("D2", FilterEmit(0), &["A"]), sp("E1", FilterEmit(0), &["D1"]), sp("F1", FilterEmit(0), &["E1"]), sp("E2", FilterEmit(1), &["D2"])]),
        ("fork_stateful", vec![sp("D1", FilterEmit(0), &["A"]), sp("D2", FilterEmit(0), &["A"]), sp("W", CountAgg(2), &["D1"]), sp("Q", Seq(2), &["D2"])]),
    ]
}

/// Grammar: every program of 1..=n streams `S1..Sn`; stream i is `join(A, B)` or one of the
/// single-source templates over A, B or an earlier stream.
pub fn grammar(max_streams: usize) -> Vec<Vec<StreamSpec>> {
    use Tpl::*;
    let tpls = [FilterEmit(1), FilterEmit(0), FilterNoEmit(1), CountAgg(2), Seq(2)];
    let mut out: Vec<Vec<StreamSpec>> = Vec::new();
    let mut level: Vec<Vec<StreamSpec>> = vec![vec![]];
    for i in 1..=max_streams {
        let mut next = Vec::new();
        for base in &level {
            let name = format!("S{i}");
            let mut sources: Vec<String> = vec!["A".into(), "B".into()];
            sources.extend(base.iter().map(|s| s.name.clone()));
            for t in tpls {
                for s in &sources {
                    let mut p = base.clone();
                    p.push(StreamSpec::new(&name, t, &[s.as_str()]));
                    next.push(p);
                }
            }
            let mut p = base.clone();
            p.push(StreamSpec::new(&name, Join, &["A", "B"]));
            next.push(p);
        }
        out.extend(next.iter().cloned());
        level = next;
    }
    out
}

/// Signature of a difference, from attributes of the case only: entry point, the template of the
/// stream whose outputs differ and its position in the declared topology, and the failure class.
pub fn signature(prog: &Prog, entry: Entry, stream: &str, class: Class) -> String {
    let e = entry.name();
    if class == Class::Interleave {
        return if prog.has_derived() { format!("C16:{e}:derived_order") } else { format!("C16:{e}:sibling_order") };
    }
    let unconsumed_process = |i: usize| prog.streams[i].tpl == Tpl::Process && prog.unconsumed_noemit().contains(&i);
    let Some(i) = prog.idx(stream) else {
        // an output whose type is not a stream name: on the sync path a `.process` stream without
        // consumers sends its outputs under the type given by the user function's `emit`
        if entry == Entry::Sync && (0..prog.streams.len()).any(unconsumed_process) {
            return "C16:sync:process_output_not_renamed".into();
        }
        return format!("C16:{e}:unknown_output_type:{}", class.name());
    };
    if entry == Entry::Sync && class == Class::Loss && unconsumed_process(i) {
        return "C16:sync:process_output_not_renamed".into();
    }
    if entry == Entry::Sync && class == Class::Loss && prog.at_or_below("join").contains(&i) {
        return "C16:sync:join".into();
    }
    if entry == Entry::Sync && matches!(class, Class::Dup | Class::Content) && prog.beside_unconsumed_noemit().contains(&i) {
        return "C16:sync:noemit_sibling_reroute".into();
    }
    let derived = if prog.streams[i].consumes().iter().any(|c| prog.idx(c).is_some()) { "derived_" } else { "" };
    format!("C16:{e}:{derived}{}:{}", prog.streams[i].tpl.class(), class.name())
}

/// fewer events < fewer streams < earlier sequence in the enumeration order < fewer batch cuts
pub fn case_size(prog: &Prog, evs: &[Ev], mask: u32) -> usize {
    let rank: usize = evs.iter().rev().fold(0, |r, e| r * 8 + (e.k as usize * 4 + (e.v as usize - 1) * 2 + e.t as usize));
    ((evs.len() * 10 + prog.streams.len()) * 300_000 + rank) * 64 + mask as usize
}

pub fn case_json(prog: &Prog, evs: &[Ev], entry: Entry, mask: u32) -> J {
    json!({"streams": prog.to_json(), "program": prog.text, "events": ev_json(evs), "events_readable": ev_readable(evs),
           "entry": entry.name(), "mask": mask, "batch_sizes": split_sizes(evs.len(), mask)})
}

/// One execution through a batched entry point, compared with the reference outputs.
pub fn check(prog: &Prog, evs: &[Ev], base: &[String], entry: Entry, mask: u32, acc: &mut Acc) {
    let got = run(&prog.ast, evs, entry, mask, false).outputs;
    acc.evaluations += 1;
    if !base.is_empty() {
        acc.nontrivial += 1;
    }
    acc.outcome(&got);
    let diffs = diff_outputs(base, &got);
    let differing: Vec<usize> = diffs.iter().filter_map(|(s, _)| prog.idx(s)).collect();
    for (stream, class) in diffs {
        // a stream is judged only when the streams it (transitively) consumes produced the same
        // outputs; otherwise its difference is a knock-on effect of the upstream one reported here
        if let Some(i) = prog.idx(&stream) {
            if differing.iter().any(|&u| u != i && prog.downstream_closure(&[u]).contains(&i)) {
                acc.count("knock_on_differences_below_a_reported_stream", 1);
                continue;
            }
        }
        let sig = signature(prog, entry, &stream, class);
        let what = if stream.is_empty() { "interleaving of the streams' outputs".to_string() } else { format!("outputs of stream {stream}") };
        let desc = format!(
            "[{}] events {} as batches {:?} through {}: {what} differ ({}): one-at-a-time gives {:?}, {} gives {:?}",
            prog.label(),
            ev_readable(evs),
            split_sizes(evs.len(), mask),
            entry.name(),
            class.name(),
            base,
            entry.name(),
            got
        );
        let size = case_size(prog, evs, mask);
        acc.viol.add(sig, desc, case_json(prog, evs, entry, mask), size);
    }
}

/// `max_len`: longest event sequence for programs without a join (4 event kinds); `max_len_join`:
/// for programs with a join (8 event kinds).
fn sweep(rep: &mut Report, args: &Args, deadline: &Deadline, progs: &[Prog], max_len: usize, max_len_join: usize, what: &str) {
    if deadline.expired() {
        rep.cap_hit(&format!("wall cap before {what}"));
        return;
    }
    let spaces: Vec<SeqSpace> = progs.iter().map(|p| SeqSpace::new(alphabet(p.uses_k()).len(), 1, if p.uses_k() { max_len_join } else { max_len })).collect();
    let mut offs = vec![0u64];
    for s in &spaces {
        offs.push(offs.last().unwrap() + s.total());
    }
    let total = *offs.last().unwrap();
    let alpha = [alphabet(false), alphabet(true)];
    let (acc, done) = mc::par_indices(total, args.threads, 16, |i, acc| {
        if deadline.expired() {
            return false;
        }
        let pi = offs.partition_point(|o| *o <= i) - 1;
        let prog = &progs[pi];
        let mut idx = Vec::new();
        spaces[pi].decode(i - offs[pi], &mut idx);
        let al = &alpha[prog.uses_k() as usize];
        let evs: Vec<Ev> = idx.iter().map(|k| al[*k]).collect();
        let base = run(&prog.ast, &evs, Entry::Each, 0, false).outputs;
        acc.evaluations += 1;
        if !base.is_empty() {
            acc.nontrivial += 1;
        }
        acc.outcome(&base);
        for mask in 0..(1u32 << (evs.len() - 1)) {
            for entry in BATCHED {
                check(prog, &evs, &base, entry, mask, acc);
            }
        }
        if i == total - 1 {
            acc.samples.push(json!({"phase": what, "program": prog.text, "events": ev_readable(&evs), "reference_outputs": base}));
        }
        true
    });
    if !done {
        rep.cap_hit(&format!("wall cap during {what}"));
    }
    rep.set(&format!("{what}_programs"), json!(progs.len()));
    rep.set(&format!("{what}_event_sequences"), json!(total));
    rep.set(&format!("{what}_max_events"), json!(max_len));
    rep.set(&format!("{what}_max_events_programs_with_join"), json!(max_len_join));
    rep.absorb(acc);
}

fn determinism_probe() {
    let prog = Prog::build(vec![sp("J", Tpl::Join, &["A", "B"]), sp("W", Tpl::CountAgg(2), &["A"]), sp("Q", Tpl::Seq(2), &["A"])]).unwrap_or_else(|e| mc::machinery_error(&e));
    let al = alphabet(true);
    let evs = vec![al[0], al[1], al[2], al[3], al[0]];
    let a = run(&prog.ast, &evs, Entry::Each, 0, false).outputs;
    let b = run(&prog.ast, &evs, Entry::Each, 0, false).outputs;
    if a != b || a.is_empty() {
        mc::machinery_error(&format!("reference run is not deterministic or silent: {a:?} vs {b:?}"));
    }
}

pub fn main(args: &Args) -> ! {
    let mut rep = Report::new(args, "exploration");
    determinism_probe();
    if let Some(path) = &args.replay {
        let case = mc::load_replay(path);
        let mut acc = Acc::default();
        let prog = Prog::from_json(&case["streams"]).unwrap_or_else(|e| mc::machinery_error(&e));
        let evs = ev_from_json(&case["events"]);
        let entry = Entry::from_name(case["entry"].as_str().unwrap_or("")).unwrap_or_else(|| mc::machinery_error("replay: bad entry"));
        let mask = case["mask"].as_u64().unwrap_or(0) as u32;
        let base = run(&prog.ast, &evs, Entry::Each, 0, false).outputs;
        acc.evaluations += 1;
        println!("REPLAY program:\n{}", prog.text);
        println!("REPLAY events: {}", ev_readable(&evs));
        println!("REPLAY process (one at a time): {base:?}");
        println!("REPLAY {} batches {:?}: {:?}", entry.name(), split_sizes(evs.len(), mask), run(&prog.ast, &evs, entry, mask, false).outputs);
        check(&prog, &evs, &base, entry, mask, &mut acc);
        rep.absorb(acc);
        rep.finish();
    }
    let deadline = Deadline::after(Duration::from_secs(args.tier.pick(30, 1050)));
    // whole-text parse with the real parser, checked against the per-declaration assembly
    let build_checked = |rep: &mut Report, specs: Vec<Vec<StreamSpec>>| -> Vec<Prog> {
        let progs = build_all(specs, args.threads);
        for p in &progs {
            let a = Prog::assemble(p.streams.clone()).unwrap_or_else(|e| mc::machinery_error(&e));
            if !same_statements(&a.ast, &p.ast) {
                mc::machinery_error(&format!("per-declaration assembly differs from whole-program parse:\n{}", p.text));
            }
        }
        rep.add_count("programs_parsed_whole_and_equal_to_assembly", progs.len() as u64);
        progs
    };
    let quick = args.tier == mc::Tier::Quick;

    // Phase 1: catalogue x long event sequences
    let cat = build_checked(&mut rep, catalogue().into_iter().map(|(_, s)| s).collect());
    sweep(&mut rep, args, &deadline, &cat, args.tier.pick(5, 6), args.tier.pick(4, 5), "catalogue");
    // Phase 2: grammar x short event sequences
    if !deadline.expired() {
        let g2 = build_checked(&mut rep, grammar(2));
        sweep(&mut rep, args, &deadline, &g2, args.tier.pick(4, 5), args.tier.pick(3, 4), "grammar_upto2");
    }
    if !deadline.expired() {
        let specs: Vec<Vec<StreamSpec>> = grammar(3).into_iter().filter(|p| p.len() == 3).collect();
        // 3 696 programs: the quick tier assembles them from per-declaration parses (~8 ms saved per program)
        let g3: Vec<Prog> = if quick {
            rep.add_count("programs_assembled_from_parsed_declarations", specs.len() as u64);
            specs.into_iter().map(|s| Prog::assemble(s).unwrap_or_else(|e| mc::machinery_error(&e))).collect()
        } else {
            build_checked(&mut rep, specs)
        };
        sweep(&mut rep, args, &deadline, &g3, args.tier.pick(2, 4), args.tier.pick(2, 3), "grammar_3streams");
    } else {
        rep.cap_hit("wall cap before grammar_3streams");
    }

    rep.rule = "Exhaustive differential enumeration. Programs: (1) a catalogue of 25 programs (filter+emit, emit-less filter, count window+aggregate, 2- and 3-step sequence, join, .process, siblings on one type, derived chains, diamond, chain into window/sequence/join, forks whose branches each have their own consumers); (2) every program of 1..3 streams S1..Sn where each stream is join(A,B) or one of {where(v>1)+emit, where(v>0)+emit, where(v>1) without emit, window(2)+aggregate+emit, 2-step sequence} over A, B or an earlier stream. Inputs: every event sequence of length 1..=max (max per phase and per alphabet in the *_max_events fields) over types {A,B} x v {1,2} (x k {x,y} when the program contains a join; k is never read otherwise), ids = positions, timestamps T0+1s*position. For each (program, sequence): one reference execution through Engine::process one event at a time, then one execution per entry point {process_batch, process_batch_sync, process_batch_shared} x every one of the 2^(n-1) batch splits, each on a fresh engine; drained output sequences (event type + data, match_duration_ms projected away) must be equal. Non-trivial = the reference output is non-empty.".into();
    rep.assume("outputs are compared as sequences of (event_type, data); event timestamps of outputs are not compared");
    rep.assume("programs without a join never read field k, so k is fixed to \"x\" for them (the field is only copied through)");
    rep.assume("every program text is parsed by the real parser, except the 3 696 three-stream grammar programs in the quick tier, which are assembled from stream declarations parsed one by one by the real parser; wherever the whole text is parsed it is checked to give the same statements as the assembly");
    rep.assume("when a stream's outputs differ, differences of the streams downstream of it in the same execution are knock-on effects and are counted, not reported");
    rep.assume("a difference is attributed per output stream; when every stream's own output sequence agrees and only the cross-stream interleaving differs it is reported as *_order");
    rep.finish()
}
