//! Shared pieces of the engine harness (C16, C17, C23): event alphabet, program grammar (VPL source
//! text generated from a small stream-spec), drivers for the four event-processing entry points.

use serde_json::{json, Value as J};
use std::sync::Arc;
use varpulis_core::ast::Program;
use varpulis_core::Value;
use varpulis_runtime::{Engine, Event};

pub const T0_MS: i64 = 1_700_000_000_000;
pub const STEP_MS: i64 = 1000;

// ------------------------------------------------------------------------------------------------
// Events

/// One input event kind: type A/B, key x/y, value v. The `id` field is the stream position.
#[derive(Clone, Copy, Debug, PartialEq, Eq, Hash)]
pub struct Ev {
    pub t: u8,
    pub k: u8,
    pub v: i64,
}

pub const TYPES: [&str; 2] = ["A", "B"];
pub const KEYS: [&str; 2] = ["x", "y"];

pub fn mk(e: &Ev, pos: usize) -> Event {
    let ts = chrono::DateTime::from_timestamp_millis(T0_MS + pos as i64 * STEP_MS).unwrap();
    let mut ev = Event::new_at(TYPES[e.t as usize].to_string(), ts);
    ev.data.insert("id".into(), Value::Int(pos as i64));
    ev.data.insert("k".into(), Value::str(KEYS[e.k as usize]));
    ev.data.insert("v".into(), Value::Int(e.v));
    ev
}

/// Alphabet, simplest first. Without `with_k` the key is fixed to "x" (sound for programs that never
/// read `k`: the field is only copied).
pub fn alphabet(with_k: bool) -> Vec<Ev> {
    let mut a = Vec::new();
    for k in 0..(if with_k { 2u8 } else { 1u8 }) {
        for v in [1i64, 2] {
            for t in 0..2u8 {
                a.push(Ev { t, k, v });
            }
        }
    }
    a
}

pub fn ev_json(evs: &[Ev]) -> J {
    J::Array(evs.iter().map(|e| json!([e.t, e.k, e.v])).collect())
}
pub fn ev_from_json(v: &J) -> Vec<Ev> {
    v.as_array()
        .map(|a| {
            a.iter()
                .map(|e| Ev { t: e[0].as_u64().unwrap_or(0) as u8, k: e[1].as_u64().unwrap_or(0) as u8, v: e[2].as_i64().unwrap_or(1) })
                .collect()
        })
        .unwrap_or_default()
}
pub fn ev_readable(evs: &[Ev]) -> String {
    let v: Vec<String> = evs.iter().enumerate().map(|(i, e)| format!("{}{{id={i},k={},v={}}}", TYPES[e.t as usize], KEYS[e.k as usize], e.v)).collect();
    v.join(" ")
}

/// `type{field=value,...}` with fields sorted; `match_duration_ms` (wall clock) projected away.
/// Same format as the delivery recorder hook in varpulis-runtime/src/verif.rs.
pub fn describe(e: &Event) -> String {
    let mut d: Vec<String> = e.data.iter().filter(|(k, _)| &***k != "match_duration_ms").map(|(k, v)| format!("{k}={v}")).collect();
    d.sort();
    format!("{}{{{}}}", e.event_type, d.join(","))
}

pub fn type_of(line: &str) -> &str {
    line.split('{').next().unwrap_or("")
}

// ------------------------------------------------------------------------------------------------
// Program grammar

#[derive(Clone, Copy, Debug, PartialEq, Eq, Hash)]
pub enum Tpl {
    /// `.where(v > c).emit(id: id, k: k, v: v)`
    FilterEmit(i64),
    /// `.where(v > c)` — a stream that does not emit
    FilterNoEmit(i64),
    /// `.window(n).aggregate(c: count(), s: sum(v)).emit(id: c, v: s)`
    CountAgg(i64),
    /// `SRC as a -> B as b [-> A as c] .emit(id: a.id, bid: b.id, v: b.v)`; parameter = number of steps
    Seq(u8),
    /// `join(X, Y).on(X.k == Y.k).window(5s).emit(id: X.id, bid: Y.id, v: Y.v)`
    Join,
    /// `.process(fwd(id, v))` with `fn fwd(i, w): emit Out(id: i, v: w)`; no `.emit`
    Process,
}

impl Tpl {
    pub fn name(self) -> String {
        match self {
            Tpl::FilterEmit(c) => format!("fe{c}"),
            Tpl::FilterNoEmit(c) => format!("fn{c}"),
            Tpl::CountAgg(n) => format!("win{n}"),
            Tpl::Seq(n) => format!("seq{n}"),
            Tpl::Join => "join".into(),
            Tpl::Process => "proc".into(),
        }
    }
    /// coarse class used in signatures
    pub fn class(self) -> &'static str {
        match self {
            Tpl::FilterEmit(_) => "filter",
            Tpl::FilterNoEmit(_) => "noemit",
            Tpl::CountAgg(_) => "count_window",
            Tpl::Seq(_) => "sequence",
            Tpl::Join => "join",
            Tpl::Process => "process",
        }
    }
    pub fn from_name(s: &str) -> Option<Tpl> {
        let num = |p: &str| s.strip_prefix(p).and_then(|r| r.parse::<i64>().ok());
        if s == "join" {
            Some(Tpl::Join)
        } else if s == "proc" {
            Some(Tpl::Process)
        } else if let Some(c) = num("fe") {
            Some(Tpl::FilterEmit(c))
        } else if let Some(c) = num("fn") {
            Some(Tpl::FilterNoEmit(c))
        } else if let Some(c) = num("win") {
            Some(Tpl::CountAgg(c))
        } else {
            num("seq").map(|c| Tpl::Seq(c as u8))
        }
    }
}

#[derive(Clone, Debug, PartialEq, Eq, Hash)]
pub struct StreamSpec {
    pub name: String,
    pub tpl: Tpl,
    /// what the stream consumes: one name (event type or stream) for all templates except
    /// `Seq` (first step; the later steps are B, A) and `Join` (two names)
    pub srcs: Vec<String>,
    /// optional extra `.where(v > c)` directly after the source (used by C23 edits)
    pub pre_where: Option<i64>,
    /// optional extra `.where(v > c)` as the LAST operation, after the emit (used by C23 edits;
    /// only rendered for the templates that end in an emit on a field `v`)
    pub post_where: Option<i64>,
}

impl StreamSpec {
    pub fn new(name: &str, tpl: Tpl, srcs: &[&str]) -> Self {
        StreamSpec { name: name.into(), tpl, srcs: srcs.iter().map(|s| s.to_string()).collect(), pre_where: None, post_where: None }
    }
    /// every event type / stream name this stream consumes according to its declaration
    pub fn consumes(&self) -> Vec<String> {
        let mut c = self.srcs.clone();
        if let Tpl::Seq(n) = self.tpl {
            c.push("B".into());
            if n >= 3 {
                c.push("A".into());
            }
        }
        c.sort();
        c.dedup();
        c
    }
    pub fn text(&self) -> String {
        let body = self.text_without_tail();
        match (self.post_where, self.tpl) {
            (Some(c), Tpl::FilterEmit(_) | Tpl::CountAgg(_) | Tpl::Seq(_) | Tpl::Join) => format!("{body}    .where(v > {c})\n"),
            _ => body,
        }
    }
    fn text_without_tail(&self) -> String {
        let pre = self.pre_where.map(|c| format!("    .where(v > {c})\n")).unwrap_or_default();
        let n = &self.name;
        match self.tpl {
            Tpl::FilterEmit(c) => format!("stream {n} = {}\n{pre}    .where(v > {c})\n    .emit(id: id, k: k, v: v)\n", self.srcs[0]),
            Tpl::FilterNoEmit(c) => format!("stream {n} = {}\n{pre}    .where(v > {c})\n", self.srcs[0]),
            Tpl::CountAgg(w) => format!("stream {n} = {}\n{pre}    .window({w})\n    .aggregate(c: count(), s: sum(v))\n    .emit(id: c, v: s)\n", self.srcs[0]),
            Tpl::Seq(steps) => {
                let third = if steps >= 3 { " -> A as c" } else { "" };
                format!("stream {n} = {} as a -> B as b{third}\n{pre}    .emit(id: a.id, bid: b.id, v: b.v)\n", self.srcs[0])
            }
            Tpl::Join => {
                let (x, y) = (&self.srcs[0], &self.srcs[1]);
                format!("stream {n} = join({x}, {y})\n    .on({x}.k == {y}.k)\n    .window(5s)\n{pre}    .emit(id: {x}.id, bid: {y}.id, v: {y}.v)\n")
            }
            Tpl::Process => format!("stream {n} = {}\n{pre}    .process(fwd(id, v))\n", self.srcs[0]),
        }
    }
    pub fn to_json(&self) -> J {
        json!({"name": self.name, "tpl": self.tpl.name(), "srcs": self.srcs, "pre_where": self.pre_where, "post_where": self.post_where})
    }
    pub fn from_json(v: &J) -> Option<StreamSpec> {
        Some(StreamSpec {
            name: v["name"].as_str()?.to_string(),
            tpl: Tpl::from_name(v["tpl"].as_str()?)?,
            srcs: v["srcs"].as_array()?.iter().filter_map(|s| s.as_str().map(String::from)).collect(),
            pre_where: v["pre_where"].as_i64(),
            post_where: v["post_where"].as_i64(),
        })
    }
    pub fn label(&self) -> String {
        let w = self.pre_where.map(|c| format!("+where{c}")).unwrap_or_default();
        let t = self.post_where.map(|c| format!("+tailwhere{c}")).unwrap_or_default();
        format!("{}={}({}){w}{t}", self.name, self.tpl.name(), self.srcs.join(","))
    }
}

pub fn program_text(streams: &[StreamSpec]) -> String {
    let mut t = String::new();
    if streams.iter().any(|s| s.tpl == Tpl::Process) {
        t.push_str("fn fwd(i: int, w: int):\n    emit Out(id: i, v: w)\n\n");
    }
    let parts: Vec<String> = streams.iter().map(|s| s.text()).collect();
    t.push_str(&parts.join("\n"));
    t
}

pub struct Prog {
    pub streams: Vec<StreamSpec>,
    pub text: String,
    pub ast: Program,
}

impl Prog {
    pub fn build(streams: Vec<StreamSpec>) -> Result<Prog, String> {
        let text = program_text(&streams);
        let ast = varpulis_parser::parse(&text).map_err(|e| format!("generated program does not parse: {e}\n{text}"))?;
        Ok(Prog { streams, text, ast })
    }
    /// Build the program from stream declarations that are each parsed (once per distinct text) by
    /// the real parser, instead of parsing the concatenated text: whole-program parsing costs ~8 ms
    /// (a 16 MB-stack thread per call). Callers check `same_statements` against whole-text parses.
    pub fn assemble(streams: Vec<StreamSpec>) -> Result<Prog, String> {
        let text = program_text(&streams);
        let mut statements = Vec::new();
        if streams.iter().any(|s| s.tpl == Tpl::Process) {
            statements.push(parse_decl("fn fwd(i: int, w: int):\n    emit Out(id: i, v: w)\n")?);
        }
        for s in &streams {
            statements.push(parse_decl(&s.text())?);
        }
        Ok(Prog { streams, text, ast: Program { statements } })
    }
    pub fn from_json(v: &J) -> Result<Prog, String> {
        let specs: Option<Vec<StreamSpec>> = v.as_array().map(|a| a.iter().filter_map(StreamSpec::from_json).collect());
        match specs {
            Some(s) if !s.is_empty() && s.len() == v.as_array().unwrap().len() => Prog::build(s),
            _ => Err("bad stream spec in replay file".into()),
        }
    }
    pub fn to_json(&self) -> J {
        J::Array(self.streams.iter().map(|s| s.to_json()).collect())
    }
    pub fn label(&self) -> String {
        let v: Vec<String> = self.streams.iter().map(|s| s.label()).collect();
        v.join(" | ")
    }
    pub fn idx(&self, name: &str) -> Option<usize> {
        self.streams.iter().position(|s| s.name == name)
    }
    /// does any stream read the key field (join condition)?
    pub fn uses_k(&self) -> bool {
        self.streams.iter().any(|s| s.tpl == Tpl::Join)
    }
    pub fn has_derived(&self) -> bool {
        self.streams.iter().any(|s| s.consumes().iter().any(|c| self.idx(c).is_some()))
    }
    pub fn consumers_of(&self, name: &str) -> Vec<usize> {
        (0..self.streams.len()).filter(|i| self.streams[*i].consumes().iter().any(|c| c == name)).collect()
    }
    /// stream indices reachable from `roots` through "consumes the output of" edges (roots included)
    pub fn downstream_closure(&self, roots: &[usize]) -> Vec<usize> {
        let mut seen: Vec<usize> = Vec::new();
        let mut todo: Vec<usize> = roots.to_vec();
        while let Some(i) = todo.pop() {
            if seen.contains(&i) {
                continue;
            }
            seen.push(i);
            todo.extend(self.consumers_of(&self.streams[i].name));
        }
        seen.sort();
        seen
    }
    /// emit-less streams whose name nobody consumes (the sync path does not rename their outputs)
    pub fn unconsumed_noemit(&self) -> Vec<usize> {
        (0..self.streams.len())
            .filter(|i| matches!(self.streams[*i].tpl, Tpl::FilterNoEmit(_) | Tpl::Process) && self.consumers_of(&self.streams[*i].name).is_empty())
            .collect()
    }
    /// streams that consume the same name as an unconsumed emit-less stream, and everything downstream
    pub fn beside_unconsumed_noemit(&self) -> Vec<usize> {
        let mut roots = Vec::new();
        for u in self.unconsumed_noemit() {
            for c in self.streams[u].consumes() {
                roots.extend(self.consumers_of(&c));
            }
        }
        self.downstream_closure(&roots)
    }
    /// streams with template `t` (by class) and everything downstream of them
    pub fn at_or_below(&self, class: &str) -> Vec<usize> {
        let roots: Vec<usize> = (0..self.streams.len()).filter(|i| self.streams[*i].tpl.class() == class).collect();
        self.downstream_closure(&roots)
    }
}

/// statement-wise equality, spans aside (stream declarations contain no nested spans)
pub fn same_statements(a: &Program, b: &Program) -> bool {
    a.statements.len() == b.statements.len() && a.statements.iter().zip(&b.statements).all(|(x, y)| x.node == y.node)
}

fn parse_decl(text: &str) -> Result<varpulis_core::span::Spanned<varpulis_core::ast::Stmt>, String> {
    use std::collections::HashMap;
    use std::sync::{Mutex, OnceLock};
    static CACHE: OnceLock<Mutex<HashMap<String, varpulis_core::span::Spanned<varpulis_core::ast::Stmt>>>> = OnceLock::new();
    let cache = CACHE.get_or_init(|| Mutex::new(HashMap::new()));
    if let Some(s) = cache.lock().unwrap().get(text) {
        return Ok(s.clone());
    }
    let p = varpulis_parser::parse(text).map_err(|e| format!("generated declaration does not parse: {e}\n{text}"))?;
    if p.statements.len() != 1 {
        return Err(format!("declaration parsed into {} statements:\n{text}", p.statements.len()));
    }
    let st = p.statements.into_iter().next().unwrap();
    cache.lock().unwrap().insert(text.to_string(), st.clone());
    Ok(st)
}

/// Parse many generated programs on all worker threads (the real parser costs ~8 ms per program).
pub fn build_all(specs: Vec<Vec<StreamSpec>>, threads: usize) -> Vec<Prog> {
    let slots: Vec<std::sync::Mutex<Option<Prog>>> = specs.iter().map(|_| std::sync::Mutex::new(None)).collect();
    mc::par_indices(specs.len() as u64, threads, 4, |i, _| {
        let p = Prog::build(specs[i as usize].clone()).unwrap_or_else(|e| mc::machinery_error(&e));
        *slots[i as usize].lock().unwrap() = Some(p);
        true
    });
    slots.into_iter().map(|m| m.into_inner().unwrap().expect("program built")).collect()
}

// ------------------------------------------------------------------------------------------------
// Entry points

#[derive(Clone, Copy, Debug, PartialEq, Eq, Hash)]
pub enum Entry {
    /// `Engine::process`, one event at a time (the reference run)
    Each,
    /// `Engine::process_batch`
    Batch,
    /// `Engine::process_batch_sync`
    Sync,
    /// `Engine::process_batch_shared`
    Shared,
}

pub const BATCHED: [Entry; 3] = [Entry::Batch, Entry::Sync, Entry::Shared];
pub const ALL_ENTRIES: [Entry; 4] = [Entry::Each, Entry::Batch, Entry::Sync, Entry::Shared];

impl Entry {
    pub fn name(self) -> &'static str {
        match self {
            Entry::Each => "process",
            Entry::Batch => "batch",
            Entry::Sync => "sync",
            Entry::Shared => "shared",
        }
    }
    pub fn from_name(s: &str) -> Option<Entry> {
        ALL_ENTRIES.iter().copied().find(|e| e.name() == s)
    }
}

/// Batch sizes for `n` events; bit i of `mask` set = a batch boundary after event i (i < n-1).
pub fn split_sizes(n: usize, mask: u32) -> Vec<usize> {
    let mut sizes = Vec::new();
    let mut cur = 0;
    for i in 0..n {
        cur += 1;
        if i + 1 == n || mask >> i & 1 == 1 {
            sizes.push(cur);
            cur = 0;
        }
    }
    sizes
}

thread_local! {
    static RT: tokio::runtime::Runtime = tokio::runtime::Builder::new_current_thread().build().expect("tokio runtime");
}

pub fn block_on<T>(f: impl std::future::Future<Output = T>) -> T {
    RT.with(|rt| rt.block_on(f))
}

pub const OUT_CAP: usize = 100_000;

pub fn drain(rx: &mut tokio::sync::mpsc::Receiver<Event>) -> Vec<String> {
    let mut o = Vec::new();
    while let Ok(e) = rx.try_recv() {
        o.push(describe(&e));
    }
    o
}

pub fn fresh_engine(p: &Program) -> Result<(Engine, tokio::sync::mpsc::Receiver<Event>), String> {
    let (tx, rx) = tokio::sync::mpsc::channel(OUT_CAP);
    let mut eng = Engine::new(tx);
    eng.load(p)?;
    Ok((eng, rx))
}

/// Feed `evs` (positions `first_pos..`) through one entry point with the given split.
pub async fn feed(eng: &mut Engine, evs: &[Ev], first_pos: usize, entry: Entry, mask: u32) -> Result<(), String> {
    match entry {
        Entry::Each => {
            for (i, e) in evs.iter().enumerate() {
                eng.process(mk(e, first_pos + i)).await?;
            }
        }
        _ => {
            let mut p = 0;
            for sz in split_sizes(evs.len(), mask) {
                let batch: Vec<Event> = (p..p + sz).map(|i| mk(&evs[i], first_pos + i)).collect();
                p += sz;
                match entry {
                    Entry::Batch => eng.process_batch(batch).await?,
                    Entry::Sync => eng.process_batch_sync(batch)?,
                    _ => eng.process_batch_shared(batch.into_iter().map(Arc::new).collect()).await?,
                }
            }
        }
    }
    Ok(())
}

pub struct RunOut {
    pub outputs: Vec<String>,
    pub deliveries: Vec<(String, String)>,
}

/// One execution: fresh engine, load, feed through `entry` with split `mask`, drain outputs.
/// An error or panic of the engine is part of the observation (appended as a pseudo output line).
pub fn run(p: &Program, evs: &[Ev], entry: Entry, mask: u32, record: bool) -> RunOut {
    let r = mc::catch(|| {
        block_on(async {
            let (mut eng, mut rx) = match fresh_engine(p) {
                Ok(x) => x,
                Err(e) => return RunOut { outputs: vec![format!("<load error: {e}>")], deliveries: vec![] },
            };
            if record {
                varpulis_runtime::verif::deliveries::start();
            }
            let res = feed(&mut eng, evs, 0, entry, mask).await;
            let deliveries = if record { varpulis_runtime::verif::deliveries::take() } else { vec![] };
            let mut outputs = drain(&mut rx);
            if let Err(e) = res {
                outputs.push(format!("<error: {e}>"));
            }
            RunOut { outputs, deliveries }
        })
    });
    match r {
        Ok(o) => o,
        Err(p) => {
            if record {
                let _ = varpulis_runtime::verif::deliveries::take();
            }
            RunOut { outputs: vec![format!("<panic: {p} at {}>", mc::last_panic_location())], deliveries: vec![] }
        }
    }
}

// ------------------------------------------------------------------------------------------------
// Output comparison

#[derive(Clone, Copy, Debug, PartialEq, Eq, PartialOrd, Ord)]
pub enum Class {
    /// fewer outputs than demanded, nothing extra
    Loss,
    /// all demanded outputs plus extra ones
    Dup,
    /// some missing and some extra
    Content,
    /// same multiset, different order within one stream
    Order,
    /// every stream's own output sequence is right, only the interleaving across streams differs
    Interleave,
}

impl Class {
    pub fn name(self) -> &'static str {
        match self {
            Class::Loss => "loss",
            Class::Dup => "dup",
            Class::Content => "content",
            Class::Order => "order",
            Class::Interleave => "interleave",
        }
    }
}

pub fn classify_seq(exp: &[&String], got: &[&String]) -> Option<Class> {
    if exp == got {
        return None;
    }
    let (me, mg) = (mc::multiset(exp.iter().cloned()), mc::multiset(got.iter().cloned()));
    if me == mg {
        return Some(Class::Order);
    }
    let missing = me.iter().any(|(k, n)| mg.get(k).copied().unwrap_or(0) < *n);
    let extra = mg.iter().any(|(k, n)| me.get(k).copied().unwrap_or(0) < *n);
    Some(match (missing, extra) {
        (true, false) => Class::Loss,
        (false, true) => Class::Dup,
        _ => Class::Content,
    })
}

/// Per output type (= stream name) differences between two output sequences; if every per-type
/// sequence agrees but the whole sequence does not: `("", Interleave)`.
pub fn diff_outputs(exp: &[String], got: &[String]) -> Vec<(String, Class)> {
    if exp == got {
        return vec![];
    }
    let mut types: Vec<&str> = exp.iter().chain(got.iter()).map(|l| type_of(l)).collect();
    types.sort();
    types.dedup();
    let mut out = Vec::new();
    for t in types {
        let e: Vec<&String> = exp.iter().filter(|l| type_of(l) == t).collect();
        let g: Vec<&String> = got.iter().filter(|l| type_of(l) == t).collect();
        if let Some(c) = classify_seq(&e, &g) {
            out.push((t.to_string(), c));
        }
    }
    if out.is_empty() {
        out.push((String::new(), Class::Interleave));
    }
    out
}

pub fn self_test() {
    assert_eq!(split_sizes(4, 0b000), vec![4]);
    assert_eq!(split_sizes(4, 0b001), vec![1, 3]);
    assert_eq!(split_sizes(4, 0b111), vec![1, 1, 1, 1]);
    assert_eq!(split_sizes(3, 0b10), vec![2, 1]);
    let s = |v: &[&str]| v.iter().map(|x| x.to_string()).collect::<Vec<String>>();
    assert_eq!(diff_outputs(&s(&["S{a}", "T{b}"]), &s(&["S{a}", "T{b}"])), vec![]);
    assert_eq!(diff_outputs(&s(&["S{a}", "T{b}"]), &s(&["T{b}", "S{a}"])), vec![(String::new(), Class::Interleave)]);
    assert_eq!(diff_outputs(&s(&["S{a}", "S{b}"]), &s(&["S{b}", "S{a}"])), vec![("S".to_string(), Class::Order)]);
    assert_eq!(diff_outputs(&s(&["S{a}", "T{b}"]), &s(&["S{a}"])), vec![("T".to_string(), Class::Loss)]);
    assert_eq!(diff_outputs(&s(&["S{a}"]), &s(&["S{a}", "S{a}"])), vec![("S".to_string(), Class::Dup)]);
    assert_eq!(diff_outputs(&s(&["S{a}"]), &s(&["S{b}"])), vec![("S".to_string(), Class::Content)]);
    let p = vec![
        StreamSpec::new("S1", Tpl::FilterNoEmit(0), &["A"]),
        StreamSpec::new("S2", Tpl::FilterEmit(1), &["A"]),
        StreamSpec::new("S3", Tpl::FilterEmit(1), &["S2"]),
        StreamSpec::new("S4", Tpl::Seq(2), &["B"]),
    ];
    let prog = Prog::build(p).expect("self-test program parses");
    assert_eq!(prog.unconsumed_noemit(), vec![0]);
    assert_eq!(prog.beside_unconsumed_noemit(), vec![0, 1, 2]);
    assert_eq!(prog.consumers_of("B"), vec![3]);
    assert!(prog.has_derived());
    assert_eq!(prog.at_or_below("filter"), vec![1, 2]);
    let back = Prog::from_json(&prog.to_json()).unwrap();
    assert_eq!(back.text, prog.text);
}
