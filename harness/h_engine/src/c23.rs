//! C23 — hot reload: an identity reload changes nothing observable; a changed stream behaves like a
//! freshly loaded stream of the new program from the reload on.
//!
//! Differential, no expected values: (a) identity: outputs after `reload(P)` at position `cut` equal
//! the outputs the same engine produces for the same suffix without the reload; (b) edit P -> P':
//! for every stream of P' whose definition changed, its outputs after the reload equal those of a
//! fresh engine of P' fed the suffix; for every stream that is unchanged and not downstream of a
//! changed stream, as (a). Streams downstream of a changed stream and removed streams are don't-cares.

use crate::c16::catalogue;
use crate::common::*;
use mc::{Acc, Args, Deadline, Report, SeqSpace};
use serde_json::{json, Value as J};
use std::time::Duration;

#[derive(Clone, Copy, Debug, PartialEq, Eq)]
enum Edit {
    Identity,
    Threshold,
    WindowSize,
    AddWhere,
    RemoveWhere,
    Rename,
    AddStep,
    RemoveStep,
    /// `.where(v > 1)` appended as the last operation (after the emit) / dropped again: the only
    /// edits whose operation list keeps the old one as a prefix (added after seeded change C23)
    AddTailWhere,
    RemoveTailWhere,
}

impl Edit {
    fn name(self) -> &'static str {
        match self {
            Edit::Identity => "identity",
            Edit::Threshold => "threshold",
            Edit::WindowSize => "window_size",
            Edit::AddWhere => "add_where",
            Edit::RemoveWhere => "remove_where",
            Edit::Rename => "rename",
            Edit::AddStep => "add_step",
            Edit::RemoveStep => "remove_step",
            Edit::AddTailWhere => "add_tail_where",
            Edit::RemoveTailWhere => "remove_tail_where",
        }
    }
    /// edits that keep the number of pipeline operations of the edited stream (a sequence of any
    /// length is one operation)
    fn same_op_count(self) -> bool {
        matches!(self, Edit::Threshold | Edit::WindowSize | Edit::AddStep | Edit::RemoveStep)
    }
}

/// Apply `edit` to stream `i` of `p`; `None` when not applicable.
fn apply(p: &[StreamSpec], edit: Edit, i: usize) -> Option<Vec<StreamSpec>> {
    let mut q = p.to_vec();
    match edit {
        Edit::Identity => return if i == 0 { Some(q) } else { None },
        Edit::Threshold => {
            q[i].tpl = match q[i].tpl {
                Tpl::FilterEmit(c) => Tpl::FilterEmit(1 - c),
                Tpl::FilterNoEmit(c) => Tpl::FilterNoEmit(1 - c),
                _ => return None,
            }
        }
        Edit::WindowSize => {
            q[i].tpl = match q[i].tpl {
                Tpl::CountAgg(2) => Tpl::CountAgg(3),
                Tpl::CountAgg(_) => Tpl::CountAgg(2),
                _ => return None,
            }
        }
        Edit::AddWhere | Edit::RemoveWhere => {
            if !matches!(q[i].tpl, Tpl::FilterEmit(_) | Tpl::FilterNoEmit(_) | Tpl::CountAgg(_) | Tpl::Process) {
                return None;
            }
            // RemoveWhere pairs are built by the caller as (with where) -> (without)
            q[i].pre_where = Some(1);
        }
        Edit::AddTailWhere | Edit::RemoveTailWhere => {
            if !matches!(q[i].tpl, Tpl::FilterEmit(_) | Tpl::CountAgg(_) | Tpl::Seq(_) | Tpl::Join) {
                return None;
            }
            // RemoveTailWhere pairs are built by the caller as (with) -> (without)
            q[i].post_where = Some(1);
        }
        Edit::Rename => {
            let old = q[i].name.clone();
            let new = format!("{old}r");
            for s in q.iter_mut() {
                for c in s.srcs.iter_mut() {
                    if *c == old {
                        *c = new.clone();
                    }
                }
            }
            q[i].name = new;
        }
        Edit::AddStep | Edit::RemoveStep => {
            q[i].tpl = match q[i].tpl {
                Tpl::Seq(2) => Tpl::Seq(3),
                _ => return None,
            }
        }
    }
    Some(q)
}

struct Pair {
    p: Prog,
    q: Prog,
    edit: Edit,
}

fn pairs(threads: usize) -> Vec<Pair> {
    let mut specs: Vec<(Vec<StreamSpec>, Vec<StreamSpec>, Edit)> = Vec::new();
    for (_, p) in catalogue() {
        specs.push((p.clone(), p.clone(), Edit::Identity));
    }
    for (_, p) in catalogue() {
        for i in 0..p.len() {
            for e in [Edit::Threshold, Edit::WindowSize, Edit::AddWhere, Edit::Rename, Edit::AddStep, Edit::AddTailWhere] {
                if let Some(q) = apply(&p, e, i) {
                    match e {
                        Edit::AddWhere => {
                            specs.push((p.clone(), q.clone(), Edit::AddWhere));
                            specs.push((q, p.clone(), Edit::RemoveWhere));
                        }
                        Edit::AddTailWhere => {
                            specs.push((p.clone(), q.clone(), Edit::AddTailWhere));
                            specs.push((q, p.clone(), Edit::RemoveTailWhere));
                        }
                        Edit::AddStep => {
                            specs.push((p.clone(), q.clone(), Edit::AddStep));
                            specs.push((q, p.clone(), Edit::RemoveStep));
                        }
                        _ => specs.push((p.clone(), q, e)),
                    }
                }
            }
        }
    }
    let ps = build_all(specs.iter().map(|s| s.0.clone()).collect(), threads);
    let qs = build_all(specs.iter().map(|s| s.1.clone()).collect(), threads);
    ps.into_iter().zip(qs).zip(specs).map(|((p, q), s)| Pair { p, q, edit: s.2 }).collect()
}

#[derive(Clone, Copy, PartialEq, Eq, Debug)]
enum Role {
    Identity,
    Changed,
    Untouched,
}

/// Role of every stream of P' (None = don't-care: downstream of a changed stream).
fn roles(pair: &Pair) -> Vec<Option<Role>> {
    let q = &pair.q;
    let changed: Vec<usize> = (0..q.streams.len()).filter(|i| !pair.p.streams.contains(&q.streams[*i])).collect();
    let below = q.downstream_closure(&changed);
    (0..q.streams.len())
        .map(|i| {
            if pair.edit == Edit::Identity {
                Some(Role::Identity)
            } else if changed.contains(&i) {
                Some(Role::Changed)
            } else if below.contains(&i) {
                None
            } else {
                Some(Role::Untouched)
            }
        })
        .collect()
}

fn signature(pair: &Pair, stream: Option<usize>, role: Role, class: Class) -> String {
    let r = match role {
        Role::Identity => "identity",
        Role::Changed => "edit",
        Role::Untouched => "untouched",
    };
    let Some(i) = stream else {
        return format!("C23:{r}:output_interleaving");
    };
    let q = &pair.q;
    // an edit that keeps the operation count is treated as "unchanged" by reload(): that root cause
    // takes precedence over the route-loss shapes below (which it can mimic for sequence edits)
    if role == Role::Changed && pair.edit.same_op_count() {
        return format!("C23:edit:same_op_count_treated_unchanged:{}", class.name());
    }
    if class == Class::Loss && q.at_or_below("join").contains(&i) {
        return format!("C23:{r}:join_routes");
    }
    if class == Class::Loss && q.at_or_below("sequence").contains(&i) {
        return format!("C23:{r}:sequence_routes");
    }
    format!("C23:{r}:{}:{}:{}", pair.edit.name(), q.streams[i].tpl.class(), class.name())
}

fn case_json(pair: &Pair, evs: &[Ev], cut: usize) -> J {
    json!({"p": pair.p.to_json(), "q": pair.q.to_json(), "edit": pair.edit.name(), "program_before": pair.p.text, "program_after": pair.q.text,
           "events": ev_json(evs), "events_readable": ev_readable(evs), "reload_before_event": cut})
}

/// Outputs caused by each event of `evs` on a never-reloaded engine of `p`.
fn reference_by_position(p: &Prog, evs: &[Ev]) -> Vec<Vec<String>> {
    let r = mc::catch(|| {
        block_on(async {
            let (mut eng, mut rx) = fresh_engine(&p.ast).unwrap_or_else(|e| mc::machinery_error(&format!("load: {e}")));
            let mut out = Vec::new();
            for (i, e) in evs.iter().enumerate() {
                let r = eng.process(mk(e, i)).await;
                let mut o = drain(&mut rx);
                if let Err(e) = r {
                    o.push(format!("<error: {e}>"));
                }
                out.push(o);
            }
            out
        })
    });
    r.unwrap_or_else(|p| vec![vec![format!("<panic: {p}>")]; evs.len()])
}

/// Outputs after reloading `q` into a running engine of `p` before event `cut`.
fn reloaded_run(p: &Prog, q: &Prog, evs: &[Ev], cut: usize) -> Vec<String> {
    let r = mc::catch(|| {
        block_on(async {
            let (mut eng, mut rx) = fresh_engine(&p.ast).unwrap_or_else(|e| mc::machinery_error(&format!("load: {e}")));
            let _ = feed(&mut eng, &evs[..cut], 0, Entry::Each, 0).await;
            let _ = drain(&mut rx);
            let mut out = Vec::new();
            if let Err(e) = eng.reload(&q.ast) {
                out.push(format!("<reload error: {e}>"));
            }
            let r = feed(&mut eng, &evs[cut..], cut, Entry::Each, 0).await;
            out.extend(drain(&mut rx));
            if let Err(e) = r {
                out.push(format!("<error: {e}>"));
            }
            out
        })
    });
    r.unwrap_or_else(|p| vec![format!("<panic: {p} at {}>", mc::last_panic_location())])
}

fn fresh_suffix_run(q: &Prog, evs: &[Ev], cut: usize) -> Vec<String> {
    let r = mc::catch(|| {
        block_on(async {
            let (mut eng, mut rx) = fresh_engine(&q.ast).unwrap_or_else(|e| mc::machinery_error(&format!("load: {e}")));
            let r = feed(&mut eng, &evs[cut..], cut, Entry::Each, 0).await;
            let mut out = drain(&mut rx);
            if let Err(e) = r {
                out.push(format!("<error: {e}>"));
            }
            out
        })
    });
    r.unwrap_or_else(|p| vec![format!("<panic: {p}>")])
}

fn check(pair: &Pair, roles: &[Option<Role>], evs: &[Ev], by_pos: &[Vec<String>], cut: usize, acc: &mut Acc) {
    let got = reloaded_run(&pair.p, &pair.q, evs, cut);
    acc.evaluations += 1;
    acc.outcome(&got);
    let unreloaded: Vec<String> = by_pos[cut..].iter().flatten().cloned().collect();
    let size = evs.len() * 1000 + pair.q.streams.len() * 100 + cut * 10 + pair.q.text.len().min(9);
    let report = |stream: Option<usize>, role: Role, class: Class, exp: Vec<&String>, gotv: Vec<&String>, acc: &mut Acc| {
        let what = match (stream, role) {
            (None, _) => "the interleaving of the streams' outputs changed".to_string(),
            (Some(i), Role::Changed) => format!("changed stream {} does not behave like a freshly loaded one", pair.q.streams[i].name),
            (Some(i), _) => format!("unchanged stream {} does not continue as without the reload", pair.q.streams[i].name),
        };
        let desc = format!(
            "[{}] --{}--> [{}], events {}, reload before event {cut}: {what} ({}): demanded {:?}, got {:?}",
            pair.p.label(),
            pair.edit.name(),
            pair.q.label(),
            ev_readable(evs),
            class.name(),
            exp,
            gotv
        );
        acc.viol.add(signature(pair, stream, role, class), desc, case_json(pair, evs, cut), size);
    };
    if let Some(err) = got.iter().find(|l| l.starts_with('<')) {
        let desc = format!("[{}] --{}--> [{}], events {}, reload before event {cut}: {err}", pair.p.label(), pair.edit.name(), pair.q.label(), ev_readable(evs));
        acc.viol.add(format!("C23:{}:reload_failed", pair.edit.name()), desc, case_json(pair, evs, cut), size);
        return;
    }
    let mut nontrivial = false;
    if pair.edit == Edit::Identity {
        nontrivial = !unreloaded.is_empty();
        for (ty, class) in diff_outputs(&unreloaded, &got) {
            if ty.is_empty() {
                // every stream continues exactly; only the order in which sibling streams are visited
                // changed (router rebuilt from a hash map): don't-care (DESIGN 1b), counted
                acc.count("identity_reloads_changing_only_cross_stream_order", 1);
                continue;
            }
            let idx = pair.q.idx(&ty);
            let e: Vec<&String> = unreloaded.iter().filter(|l| type_of(l) == ty).collect();
            let g: Vec<&String> = got.iter().filter(|l| type_of(l) == ty).collect();
            if idx.is_some() {
                report(idx, Role::Identity, class, e, g, acc);
            } else {
                acc.viol.add("C23:identity:unknown_output_type", format!("output of unknown type {ty} after identity reload"), case_json(pair, evs, cut), size);
            }
        }
    } else {
        let fresh = fresh_suffix_run(&pair.q, evs, cut);
        acc.evaluations += 1;
        for (i, role) in roles.iter().enumerate() {
            let Some(role) = role else { continue };
            let name = &pair.q.streams[i].name;
            let src = if *role == Role::Changed { &fresh } else { &unreloaded };
            let e: Vec<&String> = src.iter().filter(|l| type_of(l) == name).collect();
            let g: Vec<&String> = got.iter().filter(|l| type_of(l) == name).collect();
            nontrivial |= !e.is_empty();
            if let Some(class) = classify_seq(&e, &g) {
                report(Some(i), *role, class, e, g, acc);
            }
        }
    }
    if nontrivial {
        acc.nontrivial += 1;
    }
}

pub fn main(args: &Args) -> ! {
    let mut rep = Report::new(args, "exploration");
    if let Some(path) = &args.replay {
        let case = mc::load_replay(path);
        let mut acc = Acc::default();
        let p = Prog::from_json(&case["p"]).unwrap_or_else(|e| mc::machinery_error(&e));
        let q = Prog::from_json(&case["q"]).unwrap_or_else(|e| mc::machinery_error(&e));
        let edit = [Edit::Identity, Edit::Threshold, Edit::WindowSize, Edit::AddWhere, Edit::RemoveWhere, Edit::Rename, Edit::AddStep, Edit::RemoveStep, Edit::AddTailWhere, Edit::RemoveTailWhere]
            .into_iter()
            .find(|e| Some(e.name()) == case["edit"].as_str())
            .unwrap_or_else(|| mc::machinery_error("replay: bad edit"));
        let pair = Pair { p, q, edit };
        let evs = ev_from_json(&case["events"]);
        let cut = (case["reload_before_event"].as_u64().unwrap_or(0) as usize).min(evs.len());
        let by_pos = reference_by_position(&pair.p, &evs);
        println!("REPLAY program before:\n{}\nREPLAY program after:\n{}", pair.p.text, pair.q.text);
        println!("REPLAY events: {} ; reload before event {cut}", ev_readable(&evs));
        println!("REPLAY outputs after position {cut} without reload: {:?}", by_pos[cut..].iter().flatten().collect::<Vec<_>>());
        println!("REPLAY outputs of a fresh engine of the new program on the suffix: {:?}", fresh_suffix_run(&pair.q, &evs, cut));
        println!("REPLAY outputs after the reload: {:?}", reloaded_run(&pair.p, &pair.q, &evs, cut));
        acc.evaluations += 1;
        check(&pair, &roles(&pair), &evs, &by_pos, cut, &mut acc);
        rep.absorb(acc);
        rep.finish();
    }
    let deadline = Deadline::after(Duration::from_secs(args.tier.pick(30, 1050)));
    let pairs = pairs(args.threads);
    let max_len = args.tier.pick(5, 6);
    // pairs with a join use the 8-kind alphabet; they stop one event earlier
    let max_len_join = args.tier.pick(4, 5);
    let spaces: Vec<SeqSpace> = pairs
        .iter()
        .map(|p| {
            let k = p.p.uses_k() || p.q.uses_k();
            SeqSpace::new(alphabet(k).len(), 1, if k { max_len_join } else { max_len })
        })
        .collect();
    let mut offs = vec![0u64];
    for s in &spaces {
        offs.push(offs.last().unwrap() + s.total());
    }
    let total = *offs.last().unwrap();
    let alpha = [alphabet(false), alphabet(true)];
    let role_tab: Vec<Vec<Option<Role>>> = pairs.iter().map(roles).collect();
    let (acc, done) = mc::par_indices(total, args.threads, 16, |i, acc| {
        if deadline.expired() {
            return false;
        }
        let pi = offs.partition_point(|o| *o <= i) - 1;
        let pair = &pairs[pi];
        let mut idx = Vec::new();
        spaces[pi].decode(i - offs[pi], &mut idx);
        let al = &alpha[(pair.p.uses_k() || pair.q.uses_k()) as usize];
        let evs: Vec<Ev> = idx.iter().map(|k| al[*k]).collect();
        let by_pos = reference_by_position(&pair.p, &evs);
        acc.evaluations += 1;
        for cut in 0..=evs.len() {
            check(pair, &role_tab[pi], &evs, &by_pos, cut, acc);
        }
        if i == total - 1 {
            acc.samples.push(json!({"before": pair.p.text, "after": pair.q.text, "edit": pair.edit.name(), "events": ev_readable(&evs), "reload_positions": format!("0..={}", evs.len())}));
        }
        true
    });
    if !done {
        rep.cap_hit("wall cap during the (program pair, event sequence, reload position) sweep");
    }
    let mut per_edit: std::collections::BTreeMap<&str, u64> = Default::default();
    for p in &pairs {
        *per_edit.entry(p.edit.name()).or_insert(0) += 1;
    }
    rep.set("program_pairs", json!(pairs.len()));
    rep.set("program_pairs_per_edit", json!(per_edit));
    rep.set("event_sequences", json!(total));
    rep.set("max_events", json!(max_len));
    rep.set("max_events_pairs_with_join", json!(max_len_join));
    rep.absorb(acc);
    rep.rule = "Exhaustive differential enumeration. P ranges over the C16 catalogue (25 programs: filter, emit-less filter, count window+aggregate, 2-/3-step sequence, join, .process, siblings, derived chains, diamond, chain into window/sequence/join). P' = P (identity) or P with one edit of one stream: threshold change, count-window size change, added/removed .where directly after the source, added/removed .where as the last operation after the emit, stream renamed (references updated), sequence step added/removed. Inputs: every event sequence of length 1..=max over types {A,B} x v {1,2} (x k {x,y} when a join is present; max is one less for those pairs), reload at every position 0..=n. Each case runs a fresh engine of P through Engine::process up to the reload position, Engine::reload(P'), then the suffix; the outputs after the reload are compared with (identity / unchanged streams) the same engine's outputs for the suffix without reload and (changed streams) a fresh engine of P' fed the suffix. Non-trivial = the demanded output is non-empty.".into();
    rep.assume("only Engine::process drives the events (reload is orthogonal to the entry point; entry-point equivalence is C16)");
    rep.assume("outputs are compared per stream (sequence of each stream's outputs); the interleaving of different streams' outputs for one input event follows hash-map iteration after a reload and is a don't-care (counted as identity_reloads_changing_only_cross_stream_order)");
    rep.assume("streams downstream of a changed stream, and streams that exist only in the old program, are don't-cares");
    rep.finish()
}
