//! Shared machinery for the varpulis model-checking harnesses.
//!
//! * `Args` / `Report`: common command line, evidence writer, replay writer, known-finding matcher.
//! * `par_chunks`: fan an index range over worker threads (every index is visited exactly once).
//! * `seqs`: odometer enumeration of all sequences over an alphabet up to a length.
//! * `Bfs`: explicit-state breadth-first search where a state is the history that reaches it and a
//!   caller-supplied canonical key deduplicates.
//!
//! Exit codes used by every harness: 0 = property held on everything explored (possibly with
//! KNOWN-FINDING lines), 1 = at least one violation outside the known-finding scopes, 2 = machinery
//! error (never a verdict).

use serde_json::{json, Map, Value};
use std::collections::{BTreeMap, BTreeSet, HashSet, VecDeque};
use std::hash::{Hash, Hasher};
use std::path::{Path, PathBuf};
use std::sync::atomic::{AtomicBool, AtomicU64, AtomicUsize, Ordering};
use std::sync::Mutex;
use std::time::{Duration, Instant};

pub const VERIF_ROOT: &str = "/verif";

#[derive(Clone, Copy, Debug, PartialEq, Eq)]
pub enum Tier {
    Quick,
    Thorough,
}

impl Tier {
    pub fn name(self) -> &'static str {
        match self {
            Tier::Quick => "quick",
            Tier::Thorough => "thorough",
        }
    }
    pub fn pick<T>(self, quick: T, thorough: T) -> T {
        match self {
            Tier::Quick => quick,
            Tier::Thorough => thorough,
        }
    }
}

#[derive(Clone, Debug)]
pub struct Args {
    pub prop: String,
    pub tier: Tier,
    pub replay: Option<PathBuf>,
    pub seed: i64,
    pub threads: usize,
    /// extra free-form arguments (child-process protocol of some harnesses)
    pub extra: Vec<String>,
}

pub fn parse_args() -> Args {
    let mut it = std::env::args().skip(1);
    let prop = it.next().unwrap_or_else(|| machinery_error("usage: <bin> Cnn [--tier quick|thorough] [--replay FILE]"));
    let mut tier = match std::env::var("VERIF_TIER").ok().as_deref() {
        Some("thorough") => Tier::Thorough,
        _ => Tier::Quick,
    };
    let mut replay = None;
    let mut extra = Vec::new();
    while let Some(a) = it.next() {
        match a.as_str() {
            "--tier" => {
                tier = match it.next().as_deref() {
                    Some("quick") => Tier::Quick,
                    Some("thorough") => Tier::Thorough,
                    other => machinery_error(&format!("bad tier {other:?}")),
                }
            }
            "--replay" => replay = it.next().map(PathBuf::from),
            other => extra.push(other.to_string()),
        }
    }
    let seed = std::env::var("VERIF_SEED").ok().and_then(|s| s.parse().ok()).unwrap_or(0);
    let threads = std::env::var("VERIF_THREADS")
        .ok()
        .and_then(|s| s.parse().ok())
        .unwrap_or_else(|| std::thread::available_parallelism().map(|n| n.get()).unwrap_or(4).min(16));
    Args { prop, tier, replay, seed, threads, extra }
}

pub fn machinery_error(msg: &str) -> ! {
    eprintln!("MACHINERY-ERROR: {msg}");
    println!("MACHINERY-ERROR: {msg}");
    std::process::exit(2)
}

/// Scratch directory for harnesses that need real files (never /tmp).
pub fn scratch_dir(prop: &str) -> PathBuf {
    let p = PathBuf::from(format!("{VERIF_ROOT}/target/scratch/{prop}-{}", std::process::id()));
    let _ = std::fs::remove_dir_all(&p);
    std::fs::create_dir_all(&p).unwrap_or_else(|e| machinery_error(&format!("scratch dir: {e}")));
    p
}

// ------------------------------------------------------------------------------------------
// Known findings

#[derive(Clone, Debug)]
pub struct KnownFinding {
    pub property: String,
    pub signature: String,
    pub what: String,
}

/// Format of /verif/KNOWN_FINDINGS.txt (committed, never written at run time):
///   known: property=<id> signature=<sig> <what fails>
///   fixed: property=<id> <commit> <what failed>          (documentation only, suppresses nothing)
/// `*` inside a signature matches any run of characters (scope).
pub fn load_known_findings(prop: &str) -> Vec<KnownFinding> {
    let path = format!("{VERIF_ROOT}/KNOWN_FINDINGS.txt");
    let text = std::fs::read_to_string(&path).unwrap_or_default();
    let mut out = Vec::new();
    for line in text.lines() {
        let line = line.trim();
        let Some(rest) = line.strip_prefix("known:") else { continue };
        let mut parts = rest.trim().splitn(3, ' ');
        let p = parts.next().unwrap_or("");
        let s = parts.next().unwrap_or("");
        let what = parts.next().unwrap_or("").to_string();
        let (Some(p), Some(s)) = (p.strip_prefix("property="), s.strip_prefix("signature=")) else {
            machinery_error(&format!("malformed known-finding line: {line}"))
        };
        if p == prop {
            out.push(KnownFinding { property: p.to_string(), signature: s.to_string(), what });
        }
    }
    out
}

/// `*` in a scope matches any (possibly empty) run of characters; everything else is literal.
fn sig_matches(scope: &str, sig: &str) -> bool {
    let parts: Vec<&str> = scope.split('*').collect();
    if parts.len() == 1 {
        return scope == sig;
    }
    let mut rest = sig;
    for (i, part) in parts.iter().enumerate() {
        if i == 0 {
            match rest.strip_prefix(part) {
                Some(r) => rest = r,
                None => return false,
            }
        } else if i == parts.len() - 1 {
            return rest.ends_with(part);
        } else {
            match rest.find(part) {
                Some(pos) => rest = &rest[pos + part.len()..],
                None => return false,
            }
        }
    }
    true
}

#[cfg(test)]
mod tests {
    use super::sig_matches;
    #[test]
    fn globs() {
        assert!(sig_matches("C17:*:derived_sequence:foreign", "C17:sync:derived_sequence:foreign"));
        assert!(!sig_matches("C17:*:derived_sequence:foreign", "C17:sync:derived_sequence:dup"));
        assert!(sig_matches("C09:arrow:or:operands=*", "C09:arrow:or:operands=odd"));
        assert!(sig_matches("C26:x", "C26:x") && !sig_matches("C26:x", "C26:xy"));
        assert!(sig_matches("a*", "a") && sig_matches("*b", "ab") && !sig_matches("a*c", "ab"));
    }
}

// ------------------------------------------------------------------------------------------
// Report

#[derive(Clone, Debug)]
pub struct Violation {
    /// `<id>:<component>:<shape>`; computed from attributes of the case only.
    pub sig: String,
    pub desc: String,
    /// replayable description of the case (input to `--replay`)
    pub case: Value,
    /// size used to keep the smallest case per signature
    pub size: usize,
}

pub struct Report {
    pub prop: String,
    pub tier: Tier,
    pub seed: i64,
    pub level: &'static str,
    start: Instant,
    pub evaluations: u64,
    pub nontrivial: u64,
    pub states: u64,
    pub transitions: u64,
    pub traces: u64,
    pub rule: String,
    pub exhaustive: bool,
    pub caps_hit: Vec<String>,
    pub samples: Vec<Value>,
    pub assumptions: Vec<String>,
    pub extra: Map<String, Value>,
    /// per signature: (count, smallest case)
    viol: BTreeMap<String, (u64, Violation)>,
    pub replay_mode: bool,
}

impl Report {
    pub fn new(args: &Args, level: &'static str) -> Self {
        Report {
            prop: args.prop.clone(),
            tier: args.tier,
            seed: args.seed,
            level,
            start: Instant::now(),
            evaluations: 0,
            nontrivial: 0,
            states: 0,
            transitions: 0,
            traces: 0,
            rule: String::new(),
            exhaustive: true,
            caps_hit: Vec::new(),
            samples: Vec::new(),
            assumptions: Vec::new(),
            extra: Map::new(),
            viol: BTreeMap::new(),
            replay_mode: args.replay.is_some(),
        }
    }

    pub fn elapsed(&self) -> Duration {
        self.start.elapsed()
    }

    pub fn sample(&mut self, v: Value) {
        if self.samples.len() < 6 {
            self.samples.push(v);
        }
    }

    pub fn assume(&mut self, s: &str) {
        if !self.assumptions.iter().any(|a| a == s) {
            self.assumptions.push(s.to_string());
        }
    }

    pub fn cap_hit(&mut self, what: &str) {
        self.exhaustive = false;
        self.caps_hit.push(what.to_string());
    }

    pub fn set(&mut self, key: &str, v: Value) {
        self.extra.insert(key.to_string(), v);
    }

    pub fn add_count(&mut self, key: &str, n: u64) {
        let cur = self.extra.get(key).and_then(|v| v.as_u64()).unwrap_or(0);
        self.extra.insert(key.to_string(), json!(cur + n));
    }

    pub fn violation(&mut self, v: Violation) {
        match self.viol.get_mut(&v.sig) {
            Some((n, cur)) => {
                *n += 1;
                if v.size < cur.size {
                    *cur = v;
                }
            }
            None => {
                self.viol.insert(v.sig.clone(), (1, v));
            }
        }
    }

    pub fn merge_violations(&mut self, other: Violations) {
        for (_, (n, v)) in other.map {
            match self.viol.get_mut(&v.sig) {
                Some((cn, cur)) => {
                    *cn += n;
                    if v.size < cur.size {
                        *cur = v;
                    }
                }
                None => {
                    self.viol.insert(v.sig.clone(), (n, v));
                }
            }
        }
    }

    pub fn violation_count(&self) -> u64 {
        self.viol.values().map(|(n, _)| *n).sum()
    }

    pub fn has_violation_sig(&self, sig: &str) -> bool {
        self.viol.contains_key(sig)
    }

    /// Write evidence + replays, print KNOWN-FINDING / VIOLATION lines, exit.
    pub fn finish(mut self) -> ! {
        let known = load_known_findings(&self.prop);
        let mut new_sigs: Vec<&Violation> = Vec::new();
        let mut known_hit: BTreeMap<String, (String, u64)> = BTreeMap::new();
        for (sig, (n, v)) in &self.viol {
            match known.iter().find(|k| sig_matches(&k.signature, sig)) {
                Some(k) => {
                    let e = known_hit.entry(k.signature.clone()).or_insert((k.what.clone(), 0));
                    e.1 += n;
                }
                None => new_sigs.push(v),
            }
        }
        let replay_dir = format!("{VERIF_ROOT}/replays/{}", self.prop);
        let mut lines = Vec::new();
        let mut viol_json = Vec::new();
        for (sig, (n, v)) in &self.viol {
            let is_new = new_sigs.iter().any(|w| w.sig == *sig);
            let fname = sanitize(sig);
            let path = format!("{replay_dir}/{fname}.json");
            if !self.replay_mode {
                let _ = std::fs::create_dir_all(&replay_dir);
                let body = json!({"property": self.prop, "signature": sig, "description": v.desc, "case": v.case});
                let _ = std::fs::write(&path, serde_json::to_string_pretty(&body).unwrap() + "\n");
            }
            viol_json.push(json!({"signature": sig, "count": n, "known": !is_new, "first": v.desc, "replay": path}));
            if is_new {
                lines.push(format!("VIOLATION property={} replay={} signature={} cases={} :: {}", self.prop, path, sig, n, v.desc));
            }
        }
        for (scope, (what, n)) in &known_hit {
            println!("KNOWN-FINDING: property={} {} [scope {} — {} failing cases in this run]", self.prop, what, scope, n);
        }
        for l in &lines {
            println!("{l}");
        }
        let wall = self.start.elapsed().as_secs_f64();
        let nontrivial = self.nontrivial;
        let mut cov = Map::new();
        cov.insert("evaluations".into(), json!(self.evaluations));
        cov.insert("distinct_nontrivial".into(), json!(nontrivial));
        cov.insert("rule".into(), json!(self.rule));
        cov.insert("samples".into(), json!(self.samples));
        cov.insert("exhaustive".into(), json!(self.exhaustive && self.caps_hit.is_empty()));
        if !self.caps_hit.is_empty() {
            cov.insert("caps_hit".into(), json!(self.caps_hit));
        }
        if self.level == "model_checking" {
            cov.insert("states".into(), json!(self.states));
            cov.insert("transitions".into(), json!(self.transitions));
            cov.insert("traces_validated_against_impl".into(), json!(self.traces));
        }
        cov.insert("violating_signatures".into(), json!(viol_json));
        cov.insert("known_finding_scopes_hit".into(), json!(known_hit.keys().collect::<Vec<_>>()));
        for (k, v) in std::mem::take(&mut self.extra) {
            cov.insert(k, v);
        }
        let ev = json!({
            "property_id": self.prop,
            "tier": self.tier.name(),
            "seed": self.seed,
            "level": self.level,
            "coverage": Value::Object(cov),
            "assumptions": self.assumptions,
            "wall_s": wall,
            "violations": new_sigs.len(),
        });
        if !self.replay_mode {
            let dir = format!("{VERIF_ROOT}/evidence");
            let _ = std::fs::create_dir_all(&dir);
            let path = format!("{dir}/{}.json", self.prop);
            if let Err(e) = std::fs::write(&path, serde_json::to_string_pretty(&ev).unwrap() + "\n") {
                machinery_error(&format!("cannot write evidence {path}: {e}"));
            }
        }
        println!(
            "SUMMARY property={} tier={} level={} evaluations={} nontrivial={} states={} transitions={} signatures={} new={} exhaustive={} wall={:.1}s",
            self.prop,
            self.tier.name(),
            self.level,
            self.evaluations,
            nontrivial,
            self.states,
            self.transitions,
            self.viol.len(),
            new_sigs.len(),
            self.exhaustive && self.caps_hit.is_empty(),
            wall
        );
        if self.evaluations == 0 && !self.replay_mode {
            machinery_error("nothing was explored");
        }
        std::process::exit(if new_sigs.is_empty() { 0 } else { 1 })
    }
}

fn sanitize(s: &str) -> String {
    s.chars().map(|c| if c.is_ascii_alphanumeric() || c == '-' || c == '_' || c == '.' { c } else { '_' }).collect()
}

/// Load the `case` value of a replay file written by `Report::finish`.
pub fn load_replay(path: &Path) -> Value {
    let text = std::fs::read_to_string(path).unwrap_or_else(|e| machinery_error(&format!("replay file {path:?}: {e}")));
    let v: Value = serde_json::from_str(&text).unwrap_or_else(|e| machinery_error(&format!("replay file {path:?}: {e}")));
    v.get("case").cloned().unwrap_or(v)
}

/// Thread-local accumulator for violations, merged into the report at the end.
#[derive(Default)]
pub struct Violations {
    map: BTreeMap<String, (u64, Violation)>,
}

impl Violations {
    pub fn push(&mut self, v: Violation) {
        match self.map.get_mut(&v.sig) {
            Some((n, cur)) => {
                *n += 1;
                if v.size < cur.size {
                    *cur = v;
                }
            }
            None => {
                self.map.insert(v.sig.clone(), (1, v));
            }
        }
    }
    pub fn add(&mut self, sig: impl Into<String>, desc: impl Into<String>, case: Value, size: usize) {
        self.push(Violation { sig: sig.into(), desc: desc.into(), case, size });
    }
    pub fn is_empty(&self) -> bool {
        self.map.is_empty()
    }
    pub fn len(&self) -> usize {
        self.map.len()
    }
    pub fn merge(&mut self, other: Violations) {
        for (_, (n, v)) in other.map {
            match self.map.get_mut(&v.sig) {
                Some((cn, cur)) => {
                    *cn += n;
                    if v.size < cur.size {
                        *cur = v;
                    }
                }
                None => {
                    self.map.insert(v.sig.clone(), (n, v));
                }
            }
        }
    }
}

// ------------------------------------------------------------------------------------------
// Parallel enumeration

/// Per-worker accumulator merged at the end of a parallel sweep.
#[derive(Default)]
pub struct Acc {
    pub evaluations: u64,
    pub nontrivial: u64,
    pub viol: Violations,
    pub counts: BTreeMap<String, u64>,
    pub samples: Vec<Value>,
    /// distinct observed outcomes (hashes), to detect vacuous exploration
    pub outcomes: HashSet<u64>,
}

impl Acc {
    pub fn count(&mut self, key: &str, n: u64) {
        *self.counts.entry(key.to_string()).or_insert(0) += n;
    }
    pub fn sample(&mut self, v: impl FnOnce() -> Value) {
        if self.samples.len() < 2 {
            self.samples.push(v());
        }
    }
    pub fn outcome<T: Hash>(&mut self, t: &T) {
        if self.outcomes.len() < 100_000 {
            self.outcomes.insert(hash_of(t));
        }
    }
    pub fn merge(&mut self, o: Acc) {
        self.evaluations += o.evaluations;
        self.nontrivial += o.nontrivial;
        self.viol.merge(o.viol);
        for (k, v) in o.counts {
            *self.counts.entry(k).or_insert(0) += v;
        }
        for s in o.samples {
            if self.samples.len() < 6 {
                self.samples.push(s);
            }
        }
        self.outcomes.extend(o.outcomes);
    }
}

impl Report {
    pub fn absorb(&mut self, acc: Acc) {
        self.evaluations += acc.evaluations;
        self.nontrivial += acc.nontrivial;
        self.merge_violations(acc.viol);
        for (k, v) in acc.counts {
            self.add_count(&k, v);
        }
        for s in acc.samples {
            self.sample(s);
        }
        if !acc.outcomes.is_empty() {
            self.add_count("distinct_outcomes", acc.outcomes.len() as u64);
        }
    }
}

pub fn hash_of<T: Hash>(t: &T) -> u64 {
    let mut h = std::collections::hash_map::DefaultHasher::new();
    t.hash(&mut h);
    h.finish()
}

/// Shared deadline: workers poll `expired()`; the first expiry is recorded.
pub struct Deadline {
    at: Instant,
    hit: AtomicBool,
}

impl Deadline {
    pub fn after(d: Duration) -> Self {
        Deadline { at: Instant::now() + d, hit: AtomicBool::new(false) }
    }
    pub fn expired(&self) -> bool {
        if self.hit.load(Ordering::Relaxed) {
            return true;
        }
        if Instant::now() >= self.at {
            self.hit.store(true, Ordering::Relaxed);
            return true;
        }
        false
    }
    pub fn was_hit(&self) -> bool {
        self.hit.load(Ordering::Relaxed)
    }
}

/// Visit every index in `0..n` exactly once across `threads` workers (dynamic chunking). Each worker
/// owns an `Acc`; the merged accumulator is returned. `f` returns `false` to stop early (cap hit).
pub fn par_indices<F>(n: u64, threads: usize, chunk: u64, f: F) -> (Acc, bool)
where
    F: Fn(u64, &mut Acc) -> bool + Sync,
{
    let next = AtomicU64::new(0);
    let stop = AtomicBool::new(false);
    let total = Mutex::new(Acc::default());
    let chunk = chunk.max(1);
    std::thread::scope(|s| {
        for _ in 0..threads.max(1) {
            s.spawn(|| {
                let mut acc = Acc::default();
                'outer: loop {
                    if stop.load(Ordering::Relaxed) {
                        break;
                    }
                    let lo = next.fetch_add(chunk, Ordering::Relaxed);
                    if lo >= n {
                        break;
                    }
                    let hi = (lo + chunk).min(n);
                    for i in lo..hi {
                        if !f(i, &mut acc) {
                            stop.store(true, Ordering::Relaxed);
                            break 'outer;
                        }
                    }
                }
                total.lock().unwrap().merge(acc);
            });
        }
    });
    let complete = !stop.load(Ordering::Relaxed);
    (total.into_inner().unwrap(), complete)
}

/// Visit every item of a slice across worker threads.
pub fn par_items<T: Sync, F>(items: &[T], threads: usize, f: F) -> (Acc, bool)
where
    F: Fn(&T, &mut Acc) -> bool + Sync,
{
    par_indices(items.len() as u64, threads, 1, |i, acc| f(&items[i as usize], acc))
}

/// Number of sequences of length exactly `len` over an alphabet of `k` symbols.
pub fn pow(k: u64, len: u32) -> u64 {
    k.checked_pow(len).expect("enumeration space overflows u64")
}

/// Decode index `i` into the `len` digits (base `k`) of a sequence; digit 0 is the first element.
pub fn decode_seq(mut i: u64, k: u64, len: usize, out: &mut Vec<usize>) {
    out.clear();
    for _ in 0..len {
        out.push((i % k) as usize);
        i /= k;
    }
}

/// Total number of sequences of length 0..=max (or min..=max) over k symbols, with offsets per length.
pub struct SeqSpace {
    pub k: u64,
    pub min_len: usize,
    pub max_len: usize,
    offsets: Vec<u64>,
}

impl SeqSpace {
    pub fn new(k: usize, min_len: usize, max_len: usize) -> Self {
        let mut offsets = vec![0u64];
        for l in min_len..=max_len {
            let last = *offsets.last().unwrap();
            offsets.push(last + pow(k as u64, l as u32));
        }
        SeqSpace { k: k as u64, min_len, max_len, offsets }
    }
    pub fn total(&self) -> u64 {
        *self.offsets.last().unwrap()
    }
    /// shortest sequences first
    pub fn decode(&self, i: u64, out: &mut Vec<usize>) {
        let mut li = 0;
        while self.offsets[li + 1] <= i {
            li += 1;
        }
        decode_seq(i - self.offsets[li], self.k, self.min_len + li, out);
    }
}

// ------------------------------------------------------------------------------------------
// Explicit-state BFS over histories

pub struct BfsStats {
    pub states: u64,
    pub transitions: u64,
    pub max_depth: usize,
    pub complete: bool,
}

/// Breadth-first search where a state is the operation history reaching it.
/// `step(history) -> Option<key>`: build a fresh real object, replay the history, check the invariant
/// (reporting through the closure's captured state) and return the canonical key of the state reached,
/// or `None` to prune (history not enabled). Successors are `history + [op]` for `op in 0..n_ops`.
/// Parallel by level.
pub fn bfs_histories<K, F>(n_ops: usize, max_depth: usize, threads: usize, deadline: &Deadline, step: F) -> BfsStats
where
    K: Hash + Eq + Send,
    F: Fn(&[usize]) -> Option<K> + Sync,
{
    let mut seen: HashSet<K> = HashSet::new();
    let mut frontier: Vec<Vec<usize>> = Vec::new();
    let mut stats = BfsStats { states: 0, transitions: 0, max_depth: 0, complete: true };
    if let Some(k) = step(&[]) {
        seen.insert(k);
        frontier.push(Vec::new());
        stats.states = 1;
    }
    for depth in 1..=max_depth {
        if frontier.is_empty() {
            break;
        }
        let cands: Vec<Vec<usize>> = frontier
            .iter()
            .flat_map(|h| {
                (0..n_ops).map(move |op| {
                    let mut n = h.clone();
                    n.push(op);
                    n
                })
            })
            .collect();
        let results: Mutex<Vec<(usize, K)>> = Mutex::new(Vec::new());
        let next = AtomicUsize::new(0);
        std::thread::scope(|s| {
            for _ in 0..threads.max(1) {
                s.spawn(|| {
                    let mut local = Vec::new();
                    loop {
                        if deadline.expired() {
                            break;
                        }
                        let i = next.fetch_add(1, Ordering::Relaxed);
                        if i >= cands.len() {
                            break;
                        }
                        if let Some(k) = step(&cands[i]) {
                            local.push((i, k));
                        }
                    }
                    results.lock().unwrap().extend(local);
                });
            }
        });
        if deadline.was_hit() {
            stats.complete = false;
            break;
        }
        let mut res = results.into_inner().unwrap();
        res.sort_by_key(|(i, _)| *i);
        let mut new_frontier = Vec::new();
        for (i, k) in res {
            stats.transitions += 1;
            if seen.insert(k) {
                stats.states += 1;
                new_frontier.push(cands[i].clone());
            }
        }
        if !new_frontier.is_empty() {
            stats.max_depth = depth;
        }
        frontier = new_frontier;
    }
    stats
}

/// All subsets helper: iterate bitmasks 0..2^n.
pub fn subsets(n: usize) -> impl Iterator<Item = u32> {
    0..(1u32 << n)
}

pub fn bits(mask: u32, n: usize) -> Vec<usize> {
    (0..n).filter(|i| mask & (1 << i) != 0).collect()
}

/// Run `f` catching panics; returns Err(message) on unwind. The default panic hook output is
/// suppressed while inside (see `quiet_panics`).
pub fn catch<T>(f: impl FnOnce() -> T) -> Result<T, String> {
    match std::panic::catch_unwind(std::panic::AssertUnwindSafe(f)) {
        Ok(v) => Ok(v),
        Err(e) => Err(if let Some(s) = e.downcast_ref::<&str>() {
            s.to_string()
        } else if let Some(s) = e.downcast_ref::<String>() {
            s.clone()
        } else {
            "panic (non-string payload)".to_string()
        }),
    }
}

/// Install a panic hook that records the location of the last panic per thread instead of printing.
pub fn quiet_panics() {
    std::panic::set_hook(Box::new(|info| {
        let loc = info.location().map(|l| format!("{}:{}", l.file(), l.line())).unwrap_or_default();
        LAST_PANIC_LOC.with(|c| *c.borrow_mut() = loc);
    }));
}

thread_local! {
    static LAST_PANIC_LOC: std::cell::RefCell<String> = const { std::cell::RefCell::new(String::new()) };
}

pub fn last_panic_location() -> String {
    LAST_PANIC_LOC.with(|c| c.borrow().clone())
}

pub fn sorted_json(v: &Value) -> Value {
    match v {
        Value::Object(m) => {
            let mut b: BTreeMap<String, Value> = BTreeMap::new();
            for (k, x) in m {
                b.insert(k.clone(), sorted_json(x));
            }
            Value::Object(b.into_iter().collect())
        }
        Value::Array(a) => Value::Array(a.iter().map(sorted_json).collect()),
        other => other.clone(),
    }
}

pub type Multiset<T> = BTreeMap<T, usize>;

pub fn multiset<T: Ord + Clone>(items: impl IntoIterator<Item = T>) -> Multiset<T> {
    let mut m = BTreeMap::new();
    for i in items {
        *m.entry(i).or_insert(0) += 1;
    }
    m
}

pub fn set_of<T: Ord>(items: impl IntoIterator<Item = T>) -> BTreeSet<T> {
    items.into_iter().collect()
}

/// A simple FIFO used by harness-side explicit searches.
pub type Queue<T> = VecDeque<T>;
