use serde_json::{json, Value as J};
use std::collections::BTreeMap;
use std::io::{BufRead, BufReader};
use std::process::{Command, Stdio};
use std::sync::atomic::{AtomicUsize, Ordering};
use std::sync::Mutex;
use std::time::{Duration, Instant};
use varpulis_core::Value;
use varpulis_runtime::Event;

pub const T0_MS: i64 = 1_700_000_000_000;

pub fn ev(id: i64) -> Event {
    let ts = chrono::DateTime::from_timestamp_millis(T0_MS + id * 1000).unwrap();
    let mut e = Event::new_at("E".to_string(), ts);
    e.data.insert("id".into(), Value::Int(id));
    e.data.insert("v".into(), Value::Int(1));
    e
}

/// `(event_type, sorted fields)` — everything an output event carries except wall-clock values.
pub fn project(e: &Event) -> String {
    let mut f: Vec<String> = e.data.iter().map(|(k, v)| format!("{k}={v}")).collect();
    f.sort();
    format!("{}{{{}}}", e.event_type, f.join(","))
}

#[derive(Clone, Copy, Debug, PartialEq, Eq)]
pub enum Prog {
    /// a: S1 = E ; b: S2 = S1
    Chain2,
    /// a: S1 = E ; b: S2 = S1 ; c: S3 = S2
    Chain3,
    /// a: S1 = E ; b: S2 = S1 ; c: S3 = S1  (one producer, two consuming contexts)
    Fanout,
    /// a: S1 = E ; b: S2 = S1.window(2).aggregate(..)   (stateful consumer)
    Chain2Window,
    /// a: T1 = E (terminal, declared first) and S1 = E ; b: S2 = S1 — one context hosts two streams fed
    /// by the same input whose outputs have different cross-context routes (added after seeded change C26)
    SharedCtx,
    /// a: S1 = E and T1 = E ; b: S2 = S1 ; c: T2 = T1
    SharedCtxFan,
}

impl Prog {
    pub fn name(self) -> &'static str {
        match self {
            Prog::Chain2 => "chain2",
            Prog::Chain3 => "chain3",
            Prog::Fanout => "fanout",
            Prog::Chain2Window => "chain2_window",
            Prog::SharedCtx => "shared_ctx",
            Prog::SharedCtxFan => "shared_ctx_fan",
        }
    }
    pub fn from_name(s: &str) -> Prog {
        match s {
            "chain2" => Prog::Chain2,
            "chain3" => Prog::Chain3,
            "fanout" => Prog::Fanout,
            "chain2_window" => Prog::Chain2Window,
            "shared_ctx" => Prog::SharedCtx,
            "shared_ctx_fan" => Prog::SharedCtxFan,
            _ => mc::machinery_error(&format!("unknown program {s}")),
        }
    }
    pub fn contexts(self) -> &'static [&'static str] {
        match self {
            Prog::Chain2 | Prog::Chain2Window | Prog::SharedCtx => &["a", "b"],
            Prog::Chain3 | Prog::Fanout | Prog::SharedCtxFan => &["a", "b", "c"],
        }
    }
    /// streams with the context each runs in and its upstream
    pub fn streams(self) -> &'static [(&'static str, &'static str, &'static str)] {
        match self {
            Prog::Chain2 | Prog::Chain2Window => &[("S1", "a", "E"), ("S2", "b", "S1")],
            Prog::Chain3 => &[("S1", "a", "E"), ("S2", "b", "S1"), ("S3", "c", "S2")],
            Prog::Fanout => &[("S1", "a", "E"), ("S2", "b", "S1"), ("S3", "c", "S1")],
            Prog::SharedCtx => &[("T1", "a", "E"), ("S1", "a", "E"), ("S2", "b", "S1")],
            Prog::SharedCtxFan => &[("S1", "a", "E"), ("T1", "a", "E"), ("S2", "b", "S1"), ("T2", "c", "T1")],
        }
    }
    pub fn source(self, with_contexts: bool) -> String {
        let mut s = String::new();
        if with_contexts {
            for c in self.contexts() {
                s.push_str(&format!("context {c}\n"));
            }
            s.push('\n');
        }
        let ctx = |c: &str| if with_contexts { format!("    .context({c})\n") } else { String::new() };
        if self == Prog::SharedCtx {
            s.push_str(&format!("stream T1 = E\n{}    .where(v > 0)\n    .emit(idt: id)\n\n", ctx("a")));
        }
        s.push_str(&format!("stream S1 = E\n{}    .where(v > 0)\n    .emit(id: id, v: v)\n\n", ctx("a")));
        match self {
            Prog::SharedCtx => s.push_str(&format!("stream S2 = S1\n{}    .where(v > 0)\n    .emit(id2: id)\n", ctx("b"))),
            Prog::SharedCtxFan => {
                s.push_str(&format!("stream T1 = E\n{}    .where(v > 0)\n    .emit(id: id, v: v)\n\n", ctx("a")));
                s.push_str(&format!("stream S2 = S1\n{}    .where(v > 0)\n    .emit(id2: id)\n\n", ctx("b")));
                s.push_str(&format!("stream T2 = T1\n{}    .where(v > 0)\n    .emit(idt2: id)\n", ctx("c")));
            }
            Prog::Chain2 => s.push_str(&format!("stream S2 = S1\n{}    .where(v > 0)\n    .emit(id2: id)\n", ctx("b"))),
            Prog::Chain2Window => s.push_str(&format!("stream S2 = S1\n{}    .window(2)\n    .aggregate(c: count(), s: sum(id))\n    .emit(c: c, s: s)\n", ctx("b"))),
            Prog::Chain3 => {
                s.push_str(&format!("stream S2 = S1\n{}    .where(v > 0)\n    .emit(id: id, v: v)\n\n", ctx("b")));
                s.push_str(&format!("stream S3 = S2\n{}    .where(v > 0)\n    .emit(id3: id)\n", ctx("c")));
            }
            Prog::Fanout => {
                s.push_str(&format!("stream S2 = S1\n{}    .where(v > 0)\n    .emit(id2: id)\n\n", ctx("b")));
                s.push_str(&format!("stream S3 = S1\n{}    .where(v > 0)\n    .emit(id3: id)\n", ctx("c")));
            }
        }
        s
    }
}

/// Reference: the same program without contexts on a plain engine, per-stream output sequences.
pub fn reference_outputs(prog: Prog, n: usize) -> BTreeMap<String, Vec<String>> {
    let program = varpulis_parser::parse(&prog.source(false)).unwrap_or_else(|e| mc::machinery_error(&format!("reference program does not parse: {e:?}")));
    let rt = tokio::runtime::Builder::new_current_thread().build().unwrap();
    rt.block_on(async {
        let (tx, mut rx) = tokio::sync::mpsc::channel(100_000);
        let mut eng = varpulis_runtime::Engine::new(tx);
        eng.load(&program).unwrap_or_else(|e| mc::machinery_error(&format!("reference program does not load: {e}")));
        for k in 1..=n {
            eng.process(ev(k as i64)).await.unwrap();
        }
        let mut out: BTreeMap<String, Vec<String>> = BTreeMap::new();
        while let Ok(e) = rx.try_recv() {
            out.entry(e.event_type.to_string()).or_default().push(project(&e));
        }
        for (s, _, _) in prog.streams() {
            if n >= 2 && out.get(*s).is_none_or(|v| v.is_empty()) {
                mc::machinery_error(&format!("vacuous driver: stream {s} of {} has no output in the reference run", prog.name()));
            }
        }
        out
    })
}

// ---------------------------------------------------------------------------------------------
// Stateless DFS over schedules with a preemption bound.

#[derive(Clone, Debug)]
pub struct Point {
    pub enabled: usize,
    /// the actor that ran the previous step is still enabled (and is therefore index 0)
    pub running_still_enabled: bool,
}

pub struct Exec<O> {
    pub choices: Vec<usize>,
    pub points: Vec<Point>,
    pub labels: Vec<String>,
    pub obs: O,
}

pub struct ExploreStats {
    pub executions: u64,
    pub complete: bool,
    pub max_len: usize,
    pub choice_points: u64,
}

/// `run(prefix)` must follow `prefix` exactly (panicking on divergence) and then take choice 0.
pub fn explore<O>(bound: Option<usize>, deadline: Instant, mut run: impl FnMut(&[usize]) -> Exec<O>, mut visit: impl FnMut(&Exec<O>)) -> ExploreStats {
    let mut stack: Vec<Vec<usize>> = vec![vec![]];
    let mut st = ExploreStats { executions: 0, complete: true, max_len: 0, choice_points: 0 };
    while let Some(prefix) = stack.pop() {
        if Instant::now() >= deadline {
            st.complete = false;
            break;
        }
        let x = run(&prefix);
        st.executions += 1;
        st.max_len = st.max_len.max(x.choices.len());
        assert_eq!(&x.choices[..prefix.len()], &prefix[..], "replay divergence");
        visit(&x);
        let mut cost = 0usize;
        for i in 0..x.choices.len() {
            let p = &x.points[i];
            if i >= prefix.len() {
                st.choice_points += 1;
                let alt_cost = cost + usize::from(p.running_still_enabled);
                if bound.is_none_or(|b| alt_cost <= b) {
                    for alt in 1..p.enabled {
                        let mut np = x.choices[..i].to_vec();
                        np.push(alt);
                        stack.push(np);
                    }
                }
            }
            if x.choices[i] != 0 && p.running_still_enabled {
                cost += 1;
            }
        }
    }
    st
}

/// Put `last` first if it is in `enabled` (canonical order: running actor first, then fixed order).
pub fn canonical<A: PartialEq + Copy>(mut enabled: Vec<A>, last: Option<A>) -> (Vec<A>, bool) {
    if let Some(l) = last {
        if let Some(pos) = enabled.iter().position(|a| *a == l) {
            let a = enabled.remove(pos);
            enabled.insert(0, a);
            return (enabled, true);
        }
    }
    (enabled, false)
}

// ---------------------------------------------------------------------------------------------
// Sharding work units over child processes (the scheduler hook is process-global).

/// Run every unit in a child process `current_exe <prop> --tier <tier> unit <json>`; the child prints
/// one line `RESULT <json>`. Returns (unit, result) pairs; a child that dies is a machinery error.
pub fn run_units(prop: &str, tier: mc::Tier, units: Vec<J>, parallel: usize) -> Vec<(J, J)> {
    let exe = std::env::current_exe().unwrap();
    let next = AtomicUsize::new(0);
    let out: Mutex<Vec<(usize, J, J)>> = Mutex::new(Vec::new());
    std::thread::scope(|s| {
        for _ in 0..parallel.max(1) {
            s.spawn(|| loop {
                let i = next.fetch_add(1, Ordering::SeqCst);
                if i >= units.len() {
                    break;
                }
                let unit = &units[i];
                let mut child = Command::new(&exe)
                    .arg(prop)
                    .arg("--tier")
                    .arg(tier.name())
                    .arg("unit")
                    .arg(unit.to_string())
                    .stdout(Stdio::piped())
                    .stderr(Stdio::null())
                    .spawn()
                    .unwrap_or_else(|e| mc::machinery_error(&format!("spawn child: {e}")));
                let mut result = None;
                for line in BufReader::new(child.stdout.take().unwrap()).lines().map_while(Result::ok) {
                    if let Some(r) = line.strip_prefix("RESULT ") {
                        result = serde_json::from_str::<J>(r).ok();
                    }
                }
                let status = child.wait().unwrap();
                match result {
                    Some(r) if status.success() => out.lock().unwrap().push((i, unit.clone(), r)),
                    _ => mc::machinery_error(&format!("child for unit {unit} exited with {status} without a result")),
                }
            });
        }
    });
    let mut v = out.into_inner().unwrap();
    v.sort_by_key(|(i, _, _)| *i);
    v.into_iter().map(|(_, u, r)| (u, r)).collect()
}

pub fn child_result(r: J) -> ! {
    println!("RESULT {r}");
    std::process::exit(0)
}

pub fn unit_arg(args: &mc::Args) -> Option<J> {
    if args.extra.first().map(|s| s.as_str()) == Some("unit") {
        let s = args.extra.get(1).unwrap_or_else(|| mc::machinery_error("unit needs a json argument"));
        Some(serde_json::from_str(s).unwrap_or_else(|e| mc::machinery_error(&format!("bad unit json: {e}"))))
    } else {
        None
    }
}

pub fn per_unit_budget(tier: mc::Tier) -> Duration {
    Duration::from_secs(tier.pick(50, 900))
}

pub fn schedule_json(labels: &[String]) -> J {
    json!(labels)
}
