//! C26 — splitting a program across execution contexts does not change its output.

use crate::common::*;
use mc::{Args, Report, Tier};
use serde_json::{json, Value as J};
use std::collections::BTreeMap;
use std::sync::Arc;
use std::time::Instant;
use varpulis_runtime::context::ContextOrchestrator;
use varpulis_runtime::verif::sched;
use varpulis_runtime::{Engine, Event};

#[derive(Clone, Copy, Debug, PartialEq, Eq)]
enum Actor {
    Prod,
    Ctx(usize),
}

#[derive(Clone, Debug, Default)]
pub struct Obs {
    /// per stream: projected outputs in arrival order on the main output channel
    pub outputs: BTreeMap<String, Vec<String>>,
    /// forwards that did not arrive: (stream, target context, target queue was full)
    pub drops: Vec<(String, String, bool)>,
    pub deadlock: bool,
}

/// which context consumes the outputs of `stream` (as the program declares it); several for fan-out
fn consumers(prog: Prog, stream: &str) -> Vec<&'static str> {
    prog.streams().iter().filter(|(_, _, up)| *up == stream).map(|(_, c, _)| *c).collect()
}
fn context_of(prog: Prog, stream: &str) -> &'static str {
    prog.streams().iter().find(|(s, _, _)| *s == stream).map(|(_, c, _)| *c).unwrap()
}

pub fn run_exec(prog: Prog, n: usize, cap: usize, prefix: &[usize]) -> Exec<Obs> {
    let program = varpulis_parser::parse(&prog.source(true)).unwrap_or_else(|e| mc::machinery_error(&format!("program does not parse: {e:?}")));
    let (ttx, _trx) = tokio::sync::mpsc::channel(10);
    let mut tmp = Engine::new(ttx);
    tmp.load(&program).unwrap_or_else(|e| mc::machinery_error(&format!("program does not load: {e}")));
    let (otx, mut orx) = tokio::sync::mpsc::channel::<Event>(100_000);
    let ctxs = prog.contexts();
    sched::activate();
    let orch = ContextOrchestrator::build(tmp.context_map(), &program, otx, cap).unwrap_or_else(|e| mc::machinery_error(&format!("orchestrator build: {e}")));
    sched::wait_all_parked(ctxs.len());
    let mut obs = Obs::default();
    let (mut choices, mut points, mut labels) = (vec![], vec![], vec![]);
    let mut sent = 0usize;
    let mut last: Option<Actor> = None;
    loop {
        let mut enabled = vec![];
        if sent < n && sched::occupancy("a") < cap {
            enabled.push(Actor::Prod);
        }
        for (i, c) in ctxs.iter().enumerate() {
            if sched::occupancy(c) > 0 {
                enabled.push(Actor::Ctx(i));
            }
        }
        if enabled.is_empty() {
            obs.deadlock = sent < n;
            break;
        }
        let (enabled, running) = canonical(enabled, last);
        let i = choices.len();
        let c = if i < prefix.len() { prefix[i] } else { 0 };
        assert!(c < enabled.len(), "replay divergence at step {i}: choice {c} of {}", enabled.len());
        let act = enabled[c];
        match act {
            Actor::Prod => {
                sent += 1;
                if orch.try_process(Arc::new(ev(sent as i64))).is_err() {
                    mc::machinery_error("producer dispatch failed although the queue had room");
                }
                labels.push("producer".to_string());
            }
            Actor::Ctx(k) => {
                let before: Vec<usize> = ctxs.iter().map(|c| sched::occupancy(c)).collect();
                sched::step(ctxs[k]);
                let after: Vec<usize> = ctxs.iter().map(|c| sched::occupancy(c)).collect();
                // outputs produced by this step, per stream
                let mut produced: BTreeMap<String, usize> = BTreeMap::new();
                while let Ok(e) = orx.try_recv() {
                    *produced.entry(e.event_type.to_string()).or_default() += 1;
                    obs.outputs.entry(e.event_type.to_string()).or_default().push(project(&e));
                }
                // forwards: every output of a stream with a consumer in another context must raise
                // that context's queue occupancy by one (the stepping context consumed one message itself)
                for (ti, t) in ctxs.iter().enumerate() {
                    let want: usize = produced.iter().filter(|(s, _)| context_of(prog, s) == ctxs[k] && consumers(prog, s).contains(t)).map(|(_, c)| *c).sum();
                    if want == 0 {
                        continue;
                    }
                    let base = if ti == k { before[ti] - 1 } else { before[ti] };
                    let got = after[ti].saturating_sub(base);
                    if got < want {
                        let full = base + want > cap;
                        let stream = produced.keys().find(|s| consumers(prog, s).contains(t)).cloned().unwrap_or_default();
                        for _ in got..want {
                            obs.drops.push((stream.clone(), t.to_string(), full));
                        }
                    }
                }
                labels.push(format!("context {}", ctxs[k]));
            }
        }
        choices.push(c);
        points.push(Point { enabled: enabled.len(), running_still_enabled: running });
        last = Some(act);
    }
    sched::free_run();
    orch.shutdown();
    sched::deactivate();
    while let Ok(e) = orx.try_recv() {
        obs.outputs.entry(e.event_type.to_string()).or_default().push(project(&e));
    }
    Exec { choices, points, labels, obs }
}

/// Compare one execution with the reference; `None` = the property held on it.
fn judge(prog: Prog, cap: usize, n: usize, reference: &BTreeMap<String, Vec<String>>, x: &Exec<Obs>) -> Option<(String, String)> {
    if x.obs.deadlock {
        return Some((format!("C26:deadlock:{}", prog.name()), "no actor enabled while inputs remain".into()));
    }
    let mut diffs = vec![];
    let mut kind = "";
    for (stream, _, _) in prog.streams() {
        let want = reference.get(*stream).cloned().unwrap_or_default();
        let got = x.obs.outputs.get(*stream).cloned().unwrap_or_default();
        if want == got {
            continue;
        }
        let (mw, mg) = (mc::multiset(want.iter().cloned()), mc::multiset(got.iter().cloned()));
        let k = if mw == mg {
            "reordered"
        } else if mg.iter().any(|(k, c)| *c > mw.get(k).copied().unwrap_or(0)) {
            "duplicate_or_extra"
        } else {
            "lost"
        };
        if kind.is_empty() {
            kind = k;
        }
        diffs.push(format!("{stream}: without contexts {want:?}, with contexts {got:?}"));
    }
    if diffs.is_empty() {
        // outputs agree; a recorded drop that did not change any output would be odd but harmless
        return None;
    }
    let dropped_full = x.obs.drops.iter().any(|(_, _, full)| *full);
    let dropped_not_full = x.obs.drops.iter().any(|(_, _, full)| !*full);
    let starved_consumer = prog == Prog::Fanout
        && ["S2", "S3"].iter().any(|st| x.obs.outputs.get(*st).is_none_or(|v| v.is_empty()) && reference.get(*st).is_some_and(|v| !v.is_empty()));
    let sig = if starved_consumer {
        // one producer, two consuming contexts: one of them never receives anything
        "C26:fanout:consumer_context_not_routed".to_string()
    } else if dropped_full && !dropped_not_full {
        // a forward found the target queue full and was discarded (stateful consumers then
        // produce arbitrary wrong aggregates, so the kind of difference is not part of the scope)
        "C26:forward_dropped_when_full".to_string()
    } else {
        format!("C26:{kind}:{}:queue_not_full", prog.name())
    };
    let _ = (cap, n);
    Some((sig, diffs.join("; ")))
}

fn configs(tier: Tier) -> Vec<(Prog, usize, usize, Option<usize>)> {
    // (program, inputs, capacity, preemption bound)
    let mut v = vec![];
    match tier {
        Tier::Quick => {
            for cap in [1usize, 2, 8] {
                v.push((Prog::Chain2, 3, cap, None));
                v.push((Prog::Chain2Window, 3, cap, None));
                v.push((Prog::Chain3, 3, cap, Some(2)));
            }
            for cap in [2usize, 8] {
                v.push((Prog::Chain2, 4, cap, Some(2)));
            }
            v.push((Prog::Chain2Window, 4, 2, Some(2)));
            for cap in [1usize, 8] {
                v.push((Prog::Chain3, 2, cap, None));
                v.push((Prog::Fanout, 2, cap, None));
            }
            v.push((Prog::SharedCtx, 2, 8, None));
            v.push((Prog::SharedCtxFan, 2, 8, Some(2)));
        }
        Tier::Thorough => {
            for cap in [1usize, 2, 8] {
                for n in [2usize, 3, 4] {
                    v.push((Prog::Chain2, n, cap, if n <= 3 { None } else { Some(3) }));
                    v.push((Prog::Chain2Window, n, cap, if n <= 3 { None } else { Some(3) }));
                }
                v.push((Prog::Chain3, 2, cap, None));
                v.push((Prog::Chain3, 3, cap, Some(3)));
                v.push((Prog::Chain3, 4, cap, Some(2)));
                v.push((Prog::Fanout, 2, cap, None));
                v.push((Prog::Fanout, 3, cap, Some(3)));
                v.push((Prog::SharedCtx, 3, cap, None));
                v.push((Prog::SharedCtxFan, 2, cap, None));
                v.push((Prog::SharedCtxFan, 3, cap, Some(2)));
            }
        }
    }
    v
}

fn unit_json(c: &(Prog, usize, usize, Option<usize>)) -> J {
    json!({"prog": c.0.name(), "n": c.1, "cap": c.2, "bound": c.3})
}

fn child(args: &Args, unit: J) -> ! {
    let prog = Prog::from_name(unit["prog"].as_str().unwrap());
    let n = unit["n"].as_u64().unwrap() as usize;
    let cap = unit["cap"].as_u64().unwrap() as usize;
    let bound = unit["bound"].as_u64().map(|b| b as usize);
    let reference = reference_outputs(prog, n);
    // determinism gate: the default schedule twice
    let a = run_exec(prog, n, cap, &[]);
    let b = run_exec(prog, n, cap, &[]);
    if a.obs.outputs != b.obs.outputs || a.labels != b.labels {
        mc::machinery_error("same schedule gave different observations (nondeterminism not owned)");
    }
    let deadline = Instant::now() + per_unit_budget(args.tier);
    let mut outcomes: BTreeMap<String, u64> = BTreeMap::new();
    let mut viol: BTreeMap<String, (u64, String, Vec<usize>, Vec<String>)> = BTreeMap::new();
    let mut transitions = 0u64;
    let mut last_sched: Vec<usize> = vec![];
    let st = explore(
        bound,
        deadline,
        |p| run_exec(prog, n, cap, p),
        |x| {
            transitions += x.choices.len() as u64;
            *outcomes.entry(format!("{:?}", x.obs.outputs)).or_default() += 1;
            last_sched = x.choices.clone();
            if let Some((sig, desc)) = judge(prog, cap, n, &reference, x) {
                let e = viol.entry(sig).or_insert((0, desc.clone(), x.choices.clone(), x.labels.clone()));
                e.0 += 1;
                if x.choices.len() < e.2.len() {
                    *e = (e.0, desc, x.choices.clone(), x.labels.clone());
                }
            }
        },
    );
    // replay gate on the last explored schedule
    if st.complete {
        let r1 = run_exec(prog, n, cap, &last_sched);
        let r2 = run_exec(prog, n, cap, &last_sched);
        if r1.obs.outputs != r2.obs.outputs {
            mc::machinery_error("last schedule replayed twice gave different observations");
        }
    }
    child_result(json!({
        "executions": st.executions, "complete": st.complete, "transitions": transitions, "max_len": st.max_len,
        "distinct_outcomes": outcomes.len(),
        "violations": viol.iter().map(|(sig, (cnt, desc, ch, lab))| json!({"sig": sig, "count": cnt, "desc": desc, "choices": ch, "labels": lab})).collect::<Vec<_>>(),
    }))
}

pub fn run(args: &Args) -> ! {
    if let Some(unit) = unit_arg(args) {
        child(args, unit);
    }
    let mut rep = Report::new(args, "model_checking");
    if let Some(path) = &args.replay {
        let case = mc::load_replay(path);
        let prog = Prog::from_name(case["prog"].as_str().unwrap());
        let (n, cap) = (case["n"].as_u64().unwrap() as usize, case["cap"].as_u64().unwrap() as usize);
        let choices: Vec<usize> = case["choices"].as_array().unwrap().iter().map(|v| v.as_u64().unwrap() as usize).collect();
        let reference = reference_outputs(prog, n);
        let x = run_exec(prog, n, cap, &choices);
        rep.evaluations = 1;
        println!("schedule: {:?}\noutputs: {:?}\ndrops: {:?}", x.labels, x.obs.outputs, x.obs.drops);
        if let Some((sig, desc)) = judge(prog, cap, n, &reference, &x) {
            rep.violation(mc::Violation { sig, desc, case, size: choices.len() });
        }
        rep.finish();
    }
    let cfgs = configs(args.tier);
    let units: Vec<J> = cfgs.iter().map(unit_json).collect();
    let results = run_units("C26", args.tier, units, args.threads);
    let mut outcomes_total = 0u64;
    for (unit, r) in &results {
        let ex = r["executions"].as_u64().unwrap();
        rep.evaluations += ex;
        rep.traces += ex;
        rep.transitions += r["transitions"].as_u64().unwrap();
        rep.states += r["distinct_outcomes"].as_u64().unwrap();
        outcomes_total += r["distinct_outcomes"].as_u64().unwrap();
        if ex > 1 {
            rep.nontrivial += ex;
        }
        if !r["complete"].as_bool().unwrap() {
            rep.cap_hit(&format!("wall cap in unit {unit}"));
        }
        for v in r["violations"].as_array().unwrap() {
            let mut case = unit.clone();
            case["choices"] = v["choices"].clone();
            case["schedule"] = v["labels"].clone();
            let cnt = v["count"].as_u64().unwrap();
            let size = v["choices"].as_array().unwrap().len();
            for _ in 0..cnt.min(1) {
                rep.violation(mc::Violation { sig: v["sig"].as_str().unwrap().to_string(), desc: format!("{} [{}]: {}", unit, v["labels"], v["desc"].as_str().unwrap()), case: case.clone(), size });
            }
        }
        rep.sample(json!({"unit": unit, "executions": ex, "distinct_outcomes": r["distinct_outcomes"], "longest_schedule": r["max_len"]}));
    }
    rep.set("units", json!(results.iter().map(|(u, r)| json!({"unit": u, "executions": r["executions"], "complete": r["complete"], "distinct_outcomes": r["distinct_outcomes"]})).collect::<Vec<_>>()));
    rep.set("distinct_outcomes", json!(outcomes_total));
    rep.rule = "Each unit = (program, number of inputs, channel capacity, preemption bound): stateless DFS over every schedule of {producer, one loop iteration of each context thread} within the bound (bound null = all schedules), real ContextOrchestrator threads serialised by the sched_point hook, run to quiescence; per-stream output sequence compared with the same program without contexts. Non-trivial = executions in units with more than one schedule. states = distinct output outcomes summed over units; transitions = scheduling steps executed.".into();
    rep.assume("a context thread only interacts with others through its inbound channel and the output channel, so one loop iteration is an atomic step (the hook parks it at the top of the loop)");
    rep.assume("the producer uses try_process and is enabled only while the source context's queue has room (back-pressure at the caller is outside the property)");
    rep.finish();
}
