//! C27 — a completed coordinated checkpoint is a consistent cut.
//!
//! Actors: producer, one loop iteration of each context thread, "trigger" (barrier injection, once,
//! at any point), "complete" (drain acks; enabled only after a context handled a barrier since the
//! last drain). Every execution ends when the checkpoint completes (= crash right after completion):
//! a second orchestrator is built from the stored checkpoint, the inputs the source context had not
//! consumed at its barrier (EngineCheckpoint.events_processed) are replayed and the system is run to
//! quiescence. Oracle, per stream: outputs produced before the stream's context handled its barrier
//! ⊎ outputs of the restored system == outputs of the uninterrupted run (multiset).

use crate::common::*;
use mc::{Args, Report, Tier};
use serde_json::{json, Value as J};
use std::collections::BTreeMap;
use std::sync::Arc;
use std::time::Instant;
use varpulis_runtime::context::ContextOrchestrator;
use varpulis_runtime::persistence::{CheckpointConfig, MemoryStore, StateStore};
use varpulis_runtime::verif::sched;
use varpulis_runtime::{Engine, Event};

/// default channel capacity: large, so that C26's discard-when-full cannot interfere
const CAP: usize = 64;

#[derive(Clone, Copy, Debug, PartialEq, Eq)]
enum Actor {
    Prod,
    Ctx(usize),
    Trigger,
    Complete,
}

#[derive(Clone, Debug, Default)]
pub struct Obs {
    pub completed: bool,
    /// per stream: outputs before the barrier of the stream's context
    pub pre: BTreeMap<String, Vec<String>>,
    pub post: BTreeMap<String, Vec<String>>,
    pub source_consumed_at_barrier: u64,
    /// a context forwarded an event after the barriers were injected and before handling its own barrier
    pub forward_between_injection_and_own_barrier: bool,
    pub restore_error: Option<String>,
    /// small-capacity units: the first barrier could not be delivered to every context
    pub barrier_undeliverable: bool,
}

fn context_of(prog: Prog, stream: &str) -> &'static str {
    prog.streams().iter().find(|(s, _, _)| *s == stream).map(|(_, c, _)| *c).unwrap_or("?")
}

/// `cap` < CAP = the small-capacity units: a barrier may then be undeliverable to a context whose
/// queue is full, and the checkpoint may be triggered a second time (the periodic tick retries).
/// A context only steps while every later context has room, so that no forward is ever discarded
/// (that is C26's known finding, not this property's subject).
pub fn run_exec_cap(prog: Prog, n: usize, cap: usize, prefix: &[usize]) -> Exec<Obs> {
    let small = cap < CAP;
    let program = varpulis_parser::parse(&prog.source(true)).unwrap_or_else(|e| mc::machinery_error(&format!("program does not parse: {e:?}")));
    let (ttx, _trx) = tokio::sync::mpsc::channel(10);
    let mut tmp = Engine::new(ttx);
    tmp.load(&program).unwrap_or_else(|e| mc::machinery_error(&format!("program does not load: {e}")));
    let (otx, mut orx) = tokio::sync::mpsc::channel::<Event>(100_000);
    let store: Arc<dyn StateStore> = Arc::new(MemoryStore::new());
    let ctxs = prog.contexts();
    sched::activate();
    let cfg = CheckpointConfig { interval: std::time::Duration::from_secs(3600), max_checkpoints: 3, checkpoint_on_shutdown: false, key_prefix: "verif".into() };
    let mut orch = ContextOrchestrator::build_with_checkpoint(tmp.context_map(), &program, otx, cap, Some((cfg, store.clone())), None)
        .unwrap_or_else(|e| mc::machinery_error(&format!("orchestrator build: {e}")));
    sched::wait_all_parked(ctxs.len());
    let mut obs = Obs::default();
    let (mut choices, mut points, mut labels) = (vec![], vec![], vec![]);
    let mut sent = 0usize;
    let mut last: Option<Actor> = None;
    let mut triggered = false;
    let mut triggers = 0usize;
    let mut first_undeliverable = false;
    let mut acks_unseen = 0usize;
    let mut barrier_seen: Vec<bool> = vec![false; ctxs.len()];
    loop {
        let mut enabled = vec![];
        if sent < n && sched::occupancy("a") < cap {
            enabled.push(Actor::Prod);
        }
        for (i, c) in ctxs.iter().enumerate() {
            if sched::occupancy(c) > 0 && (!small || ctxs[i + 1..].iter().all(|d| sched::occupancy(d) < cap)) {
                enabled.push(Actor::Ctx(i));
            }
        }
        if !triggered && (small || ctxs.iter().all(|c| sched::occupancy(c) < cap)) {
            enabled.push(Actor::Trigger);
        }
        // the retry of the periodic tick after an attempt whose barrier could not reach every context
        if small && triggers == 1 && first_undeliverable && !obs.completed && ctxs.iter().all(|c| sched::occupancy(c) < cap) {
            enabled.push(Actor::Trigger);
        }
        if triggered && !obs.completed && acks_unseen > 0 {
            enabled.push(Actor::Complete);
        }
        if enabled.is_empty() {
            break;
        }
        let (enabled, running) = canonical(enabled, last);
        let i = choices.len();
        let c = if i < prefix.len() { prefix[i] } else { 0 };
        assert!(c < enabled.len(), "replay divergence at step {i}");
        let act = enabled[c];
        match act {
            Actor::Prod => {
                sent += 1;
                if orch.try_process(Arc::new(ev(sent as i64))).is_err() {
                    mc::machinery_error("producer dispatch failed although the queue had room");
                }
                labels.push("producer".into());
            }
            Actor::Ctx(k) => {
                sched::step(ctxs[k]);
                labels.push(format!("context {}", ctxs[k]));
            }
            Actor::Trigger => {
                if triggers == 0 {
                    first_undeliverable = ctxs.iter().any(|c| sched::occupancy(c) >= cap);
                    obs.barrier_undeliverable = first_undeliverable;
                }
                orch.trigger_checkpoint();
                triggered = true;
                triggers += 1;
                labels.push(if triggers == 1 { "trigger".into() } else { "trigger (retry)".into() });
            }
            Actor::Complete => {
                acks_unseen = 0;
                match orch.try_complete_checkpoint() {
                    Ok(true) => obs.completed = true,
                    Ok(false) => {}
                    Err(e) => mc::machinery_error(&format!("try_complete_checkpoint: {e}")),
                }
                labels.push("complete".into());
            }
        }
        let mut barrier_now = None;
        for note in sched::take_notes() {
            if let Some(rest) = note.strip_prefix("barrier:") {
                let cname = rest.split(':').next().unwrap_or("");
                if let Some(k) = ctxs.iter().position(|c| *c == cname) {
                    barrier_seen[k] = true;
                    barrier_now = Some(k);
                    acks_unseen += 1;
                }
            }
        }
        // outputs of this step
        let mut produced_any = false;
        while let Ok(e) = orx.try_recv() {
            let stream = e.event_type.to_string();
            let k = ctxs.iter().position(|c| *c == context_of(prog, &stream));
            produced_any = true;
            if k.is_some_and(|k| !barrier_seen[k]) {
                obs.pre.entry(stream).or_default().push(project(&e));
            }
        }
        if let Actor::Ctx(k) = act {
            if triggered && produced_any && !barrier_seen[k] && barrier_now != Some(k) {
                obs.forward_between_injection_and_own_barrier = true;
            }
        }
        choices.push(c);
        points.push(Point { enabled: enabled.len(), running_still_enabled: running });
        last = Some(act);
        if obs.completed {
            break;
        }
    }
    sched::free_run();
    orch.shutdown();
    sched::deactivate();
    if obs.completed {
        let cp = match store.load_latest_checkpoint() {
            Ok(Some(cp)) => cp,
            other => mc::machinery_error(&format!("completed checkpoint not in the store: {:?}", other.map(|o| o.map(|c| c.id)))),
        };
        let consumed = cp.context_states.get("a").map(|c| c.events_processed).unwrap_or(0);
        obs.source_consumed_at_barrier = consumed;
        let (otx2, mut orx2) = tokio::sync::mpsc::channel::<Event>(100_000);
        sched::activate();
        match ContextOrchestrator::build_with_checkpoint(tmp.context_map(), &program, otx2, cap.max(n + 1), None, Some(&cp)) {
            Ok(orch2) => {
                sched::wait_all_parked(ctxs.len());
                for k in (consumed as usize + 1)..=n {
                    if orch2.try_process(Arc::new(ev(k as i64))).is_err() {
                        mc::machinery_error("replay dispatch failed");
                    }
                }
                loop {
                    match ctxs.iter().find(|c| sched::occupancy(c) > 0) {
                        Some(c) => sched::step(c),
                        None => break,
                    }
                }
                sched::free_run();
                orch2.shutdown();
                sched::deactivate();
                while let Ok(e) = orx2.try_recv() {
                    obs.post.entry(e.event_type.to_string()).or_default().push(project(&e));
                }
            }
            Err(e) => {
                sched::deactivate();
                obs.restore_error = Some(e);
            }
        }
    }
    Exec { choices, points, labels, obs }
}

fn judge(prog: Prog, reference: &BTreeMap<String, Vec<String>>, x: &Exec<Obs>) -> Option<(String, String)> {
    if !x.obs.completed && x.obs.barrier_undeliverable {
        // the property speaks about completed checkpoints only; on the pinned tree an attempt whose
        // barrier missed a context stays pending for ever (a liveness matter outside C27)
        return None;
    }
    if !x.obs.completed {
        return Some((format!("C27:checkpoint_never_completes:{}", prog.name()), "the execution reached quiescence without a completed checkpoint".into()));
    }
    if let Some(e) = &x.obs.restore_error {
        return Some((format!("C27:restore_failed:{}", prog.name()), e.clone()));
    }
    let mut diffs = vec![];
    let (mut lost, mut dup) = (false, false);
    for (stream, _, _) in prog.streams() {
        let want = mc::multiset(reference.get(*stream).cloned().unwrap_or_default());
        let mut all = x.obs.pre.get(*stream).cloned().unwrap_or_default();
        all.extend(x.obs.post.get(*stream).cloned().unwrap_or_default());
        let got = mc::multiset(all);
        if want == got {
            continue;
        }
        if want.iter().any(|(k, c)| got.get(k).copied().unwrap_or(0) < *c) {
            lost = true;
        }
        if got.iter().any(|(k, c)| want.get(k).copied().unwrap_or(0) < *c) {
            dup = true;
        }
        diffs.push(format!("{stream}: uninterrupted {:?}; before own barrier {:?} + after restore {:?}", reference.get(*stream).cloned().unwrap_or_default(), x.obs.pre.get(*stream).cloned().unwrap_or_default(), x.obs.post.get(*stream).cloned().unwrap_or_default()));
    }
    if diffs.is_empty() {
        return None;
    }
    let stateful = prog == Prog::Chain2Window;
    let sig = if x.obs.forward_between_injection_and_own_barrier && (stateful || (lost && !dup)) {
        // an upstream context forwarded an event after the barriers were injected but before its own
        // barrier: its snapshot counts the input as consumed, the receiver's snapshot predates the event
        "C27:inflight_lost_between_barriers".to_string()
    } else {
        let kind = match (lost, dup) {
            (true, true) => "lost_and_duplicated",
            (true, false) => "lost",
            (false, true) => "duplicated",
            _ => "mismatch",
        };
        format!("C27:{kind}:{}:no_forward_between_injection_and_own_barrier={}", prog.name(), !x.obs.forward_between_injection_and_own_barrier)
    };
    Some((sig, format!("source consumed {} inputs at its barrier; {}", x.obs.source_consumed_at_barrier, diffs.join("; "))))
}

/// small-capacity units (capacity 1: one queued event fills a context's channel)
fn small_configs(tier: Tier) -> Vec<(Prog, usize, Option<usize>, usize)> {
    match tier {
        Tier::Quick => vec![(Prog::Chain2, 2, None, 1)],
        Tier::Thorough => vec![(Prog::Chain2, 2, None, 1), (Prog::Chain2, 3, Some(3), 1), (Prog::Chain2, 3, Some(2), 2), (Prog::Chain3, 2, Some(2), 1)],
    }
}

fn configs_cap(tier: Tier) -> Vec<(Prog, usize, Option<usize>, usize)> {
    let mut v: Vec<(Prog, usize, Option<usize>, usize)> = configs_default(tier).into_iter().map(|c| (c.0, c.1, c.2, CAP)).collect();
    v.extend(small_configs(tier));
    v
}

fn configs_default(tier: Tier) -> Vec<(Prog, usize, Option<usize>)> {
    match tier {
        Tier::Quick => vec![
            (Prog::Chain2, 1, None),
            (Prog::Chain2, 2, Some(1)),
            (Prog::Chain2Window, 2, Some(0)),
            (Prog::Chain2Window, 3, Some(0)),
            (Prog::Chain2, 3, Some(0)),
            (Prog::Chain3, 1, Some(0)),
        ],
        Tier::Thorough => vec![
            (Prog::Chain2, 1, None),
            (Prog::Chain2, 2, None),
            (Prog::Chain2, 3, Some(2)),
            (Prog::Chain2Window, 2, None),
            (Prog::Chain2Window, 3, Some(2)),
            (Prog::Chain2Window, 4, Some(1)),
            (Prog::Chain3, 1, None),
            (Prog::Chain3, 2, Some(2)),
            (Prog::Chain3, 3, Some(1)),
        ],
    }
}

fn child(args: &Args, unit: J) -> ! {
    let prog = Prog::from_name(unit["prog"].as_str().unwrap());
    let n = unit["n"].as_u64().unwrap() as usize;
    let bound = unit["bound"].as_u64().map(|b| b as usize);
    let cap = unit["cap"].as_u64().map(|b| b as usize).unwrap_or(CAP);
    let reference = reference_outputs(prog, n);
    let a = run_exec_cap(prog, n, cap, &[]);
    let b = run_exec_cap(prog, n, cap, &[]);
    if a.labels != b.labels || a.obs.pre != b.obs.pre || a.obs.post != b.obs.post {
        mc::machinery_error("same schedule gave different observations (nondeterminism not owned)");
    }
    let deadline = Instant::now() + per_unit_budget(args.tier);
    let mut outcomes: BTreeMap<String, u64> = BTreeMap::new();
    let mut viol: BTreeMap<String, (u64, String, Vec<usize>, Vec<String>)> = BTreeMap::new();
    let mut transitions = 0u64;
    let mut consistent = 0u64;
    let mut last_sched = vec![];
    let st = explore(
        bound,
        deadline,
        |p| run_exec_cap(prog, n, cap, p),
        |x| {
            transitions += x.choices.len() as u64;
            *outcomes.entry(format!("{:?}|{:?}|{}", x.obs.pre, x.obs.post, x.obs.source_consumed_at_barrier)).or_default() += 1;
            last_sched = x.choices.clone();
            match judge(prog, &reference, x) {
                Some((sig, desc)) => {
                    let e = viol.entry(sig).or_insert((0, desc.clone(), x.choices.clone(), x.labels.clone()));
                    e.0 += 1;
                    if x.choices.len() < e.2.len() {
                        *e = (e.0, desc, x.choices.clone(), x.labels.clone());
                    }
                }
                None => consistent += 1,
            }
        },
    );
    if st.complete {
        let r1 = run_exec_cap(prog, n, cap, &last_sched);
        let r2 = run_exec_cap(prog, n, cap, &last_sched);
        if r1.obs.pre != r2.obs.pre || r1.obs.post != r2.obs.post {
            mc::machinery_error("last schedule replayed twice gave different observations");
        }
    }
    child_result(json!({
        "executions": st.executions, "complete": st.complete, "transitions": transitions, "max_len": st.max_len,
        "distinct_outcomes": outcomes.len(), "consistent": consistent,
        "violations": viol.iter().map(|(sig, (cnt, desc, ch, lab))| json!({"sig": sig, "count": cnt, "desc": desc, "choices": ch, "labels": lab})).collect::<Vec<_>>(),
    }))
}

pub fn run(args: &Args) -> ! {
    if let Some(unit) = unit_arg(args) {
        child(args, unit);
    }
    let mut rep = Report::new(args, "model_checking");
    if let Some(path) = &args.replay {
        let case = mc::load_replay(path);
        let prog = Prog::from_name(case["prog"].as_str().unwrap());
        let n = case["n"].as_u64().unwrap() as usize;
        let choices: Vec<usize> = case["choices"].as_array().unwrap().iter().map(|v| v.as_u64().unwrap() as usize).collect();
        let reference = reference_outputs(prog, n);
        let cap = case["cap"].as_u64().map(|b| b as usize).unwrap_or(CAP);
        let x = run_exec_cap(prog, n, cap, &choices);
        rep.evaluations = 1;
        println!("schedule: {:?}\nbefore own barrier: {:?}\nafter restore: {:?}\nsource consumed at barrier: {}", x.labels, x.obs.pre, x.obs.post, x.obs.source_consumed_at_barrier);
        if let Some((sig, desc)) = judge(prog, &reference, &x) {
            rep.violation(mc::Violation { sig, desc, case, size: choices.len() });
        }
        rep.finish();
    }
    let units: Vec<J> = configs_cap(args.tier).iter().map(|c| if c.3 == CAP { json!({"prog": c.0.name(), "n": c.1, "bound": c.2}) } else { json!({"prog": c.0.name(), "n": c.1, "bound": c.2, "cap": c.3}) }).collect();
    let results = run_units("C27", args.tier, units, args.threads);
    let mut consistent = 0u64;
    for (unit, r) in &results {
        let ex = r["executions"].as_u64().unwrap();
        rep.evaluations += ex;
        rep.traces += ex;
        rep.nontrivial += ex;
        rep.transitions += r["transitions"].as_u64().unwrap();
        rep.states += r["distinct_outcomes"].as_u64().unwrap();
        consistent += r["consistent"].as_u64().unwrap();
        if !r["complete"].as_bool().unwrap() {
            rep.cap_hit(&format!("wall cap in unit {unit}"));
        }
        for v in r["violations"].as_array().unwrap() {
            let mut case = unit.clone();
            case["choices"] = v["choices"].clone();
            case["schedule"] = v["labels"].clone();
            let size = v["choices"].as_array().unwrap().len();
            rep.violation(mc::Violation { sig: v["sig"].as_str().unwrap().to_string(), desc: format!("{} {} ({} schedules in this unit): {}", unit, v["labels"], v["count"], v["desc"].as_str().unwrap()), case, size });
        }
        rep.sample(json!({"unit": unit, "executions": ex, "distinct_outcomes": r["distinct_outcomes"], "consistent_cuts": r["consistent"], "longest_schedule": r["max_len"]}));
    }
    rep.set("units", json!(results.iter().map(|(u, r)| json!({"unit": u, "executions": r["executions"], "complete": r["complete"], "distinct_outcomes": r["distinct_outcomes"], "consistent_cuts": r["consistent"]})).collect::<Vec<_>>()));
    rep.set("schedules_with_consistent_cut", json!(consistent));
    rep.rule = "Each unit = (program, inputs, preemption bound): stateless DFS over every schedule of {producer, one loop iteration per context, barrier injection at any point, ack drain} within the bound (null = all); every execution ends with a completed coordinated checkpoint in a MemoryStore, a second real orchestrator restored from it, replay of the inputs the source context had not consumed at its barrier, run to quiescence. Units with \"cap\" run with that channel capacity (added after seeded change C27): the barrier may then be undeliverable to a context whose queue is full, the trigger may be repeated once after such an attempt (the periodic tick), a context only steps while every later context has room (no forward is discarded), and an execution in which no checkpoint completes is counted but not judged. Every other execution is non-trivial (contains a checkpoint and a restore). states = distinct (pre-barrier outputs, post-restore outputs, replay offset) outcomes; transitions = scheduling steps.".into();
    rep.assume("crash is taken right after the checkpoint completes; channel capacity 64 (or the unit's \"cap\" with stepping restricted to contexts whose successors have room) so that C26's discard-when-full cannot interfere");
    rep.assume("inputs not yet consumed = inputs after the source context's EngineCheckpoint.events_processed");
    rep.finish();
}
