//! C26 (contexts do not change the output) and C27 (coordinated checkpoints are consistent cuts).
//!
//! E3 of DESIGN.md: the real `ContextOrchestrator` spawns its real OS threads and tokio runtimes;
//! the cfg-guarded `sched_point` hook parks every context thread at the top of each loop iteration
//! and the explorer grants exactly one iteration at a time. A schedule is the sequence of actor
//! choices; exploration is stateless DFS over schedules with a preemption bound (CHESS style),
//! iterated 0,1,2,…. The scheduler hook is process-global, so the parent process shards the work
//! units (configuration × preemption bound) over child processes.

mod c26;
mod c27;
mod common;

fn main() {
    let args = mc::parse_args();
    match args.prop.as_str() {
        "C26" => c26::run(&args),
        "C27" => c27::run(&args),
        _ => mc::machinery_error("h_ctx serves C26 and C27"),
    }
}
