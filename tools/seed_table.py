#!/usr/bin/env python3
"""Print a markdown table of /verif/seeded/*/meta.json (used for DESIGN.md §9.3)."""
import json,glob,os
rows=[]
for f in sorted(glob.glob('/verif/seeded/*/meta.json')):
    m=json.load(open(f))
    runs=m['checks_run_against_it']
    first={} ; last={}
    for r in runs:
        first.setdefault(r['check'],r['exit']); last[r['check']]=r['exit']
    caught_by=[c for c,e in last.items() if e==1]
    missed_first=[c for c,e in first.items() if e!=1 and last.get(c)==1]
    status='caught' if caught_by else ('MISSED' if runs else 'not run')
    if missed_first or m.get('missed_by_first_version_of_check'): status='caught after strengthening'
    rows.append((m['seed'],m['breaks_property'],m['change'][:230].replace('|','/'),m['needs_to_manifest'][:200].replace('|','/'),', '.join(caught_by) or '-',status))
out=['| seed | property | change | needs | caught by (quick tier) | status |','|---|---|---|---|---|---|']
for r in rows: out.append('| '+' | '.join(r)+' |')
table='\n'.join(out)
import sys
if len(sys.argv)>1 and sys.argv[1]=='--splice':
    d=open('/verif/DESIGN.md').read()
    a,b='<!-- SEED-TABLE-BEGIN -->','<!-- SEED-TABLE-END -->'
    i,j=d.index(a)+len(a),d.index(b)
    open('/verif/DESIGN.md','w').write(d[:i]+'\n'+table+'\n'+d[j:])
    print(f'spliced {len(rows)} rows')
else:
    print(table)
