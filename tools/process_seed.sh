#!/bin/bash
# process_seed.sh <Cnn> <crate-of-demo> <checks...>: confirm in worktree, remove worktree, run detection
id=$1; crate=$2; shift 2
if [ -d /tmp/wt-$id ]; then
  /verif/tools/confirm_seed.sh $id /tmp/wt-$id "cargo test --offline -p $crate --test seeded_${id}_demo" 2>&1 | tail -2
  git -C /repo worktree remove --force /tmp/wt-$id
fi
/verif/tools/try_seed.sh $id quick "$@" 2>&1 | tail -6
