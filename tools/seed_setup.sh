#!/bin/bash
# seed_setup.sh Cnn [suffix]: create the scratch worktree and the task file for a seeded-change agent
set -e
id=$1; suf=${2:-}
d=$(/verif/tools/mk_worktree.sh ${id}${suf})
python3 - "$id" "$d" <<'PY'
import json,sys
pid,wt=sys.argv[1],sys.argv[2]
p=[json.loads(l) for l in open('/verif/properties.jsonl') if json.loads(l)['id']==pid][0]
t=open('/verif/tools/seed_prompt.txt').read()
t=t.replace('__WT__',wt).replace('__ID__',pid).replace('__TITLE__',p['title']).replace('__STATEMENT__',p['statement']).replace('__QUANT__',', '.join(p['quantifier']['over'])+' — '+p['quantifier']['text'])
open(wt+'/SEED_TASK.md','w').write(t)
PY
echo "$d"
