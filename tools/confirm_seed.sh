#!/bin/bash
# confirm_seed.sh <Cnn> <worktree> <demo-test-cmd...>
# Confirms a seeded change in its scratch worktree: demo fails with / passes without the change,
# the repository's existing suite passes with the change. Saves patch + demo + log under /verif/seeded/<id>/.
id=$1; wt=$2; shift 2; demo_cmd="$@"
export CARGO_PROFILE_DEV_DEBUG=0 CARGO_PROFILE_TEST_DEBUG=0 CARGO_INCREMENTAL=0
out=/verif/seeded/$id; mkdir -p $out
cd $wt || exit 2
git diff -- crates > $out/patch.diff
[ -s $out/patch.diff ] || { echo "no source change in $wt"; exit 2; }
git status --short | grep '^??' | awk '{print $2}' | grep -v -E "SEED_TASK|\.patch$|^target" > $out/untracked.txt
mkdir -p $out/demo; for f in $(cat $out/untracked.txt); do mkdir -p $out/demo/$(dirname $f); cp -r $f $out/demo/$f; done
log=$out/confirm.log; : > $log
echo "## demo WITH the change: $demo_cmd" >> $log
( eval "$demo_cmd" ) >> $log 2>&1; with=$?
git apply -R $out/patch.diff || { echo "cannot revert"; exit 2; }
echo "## demo WITHOUT the change" >> $log
( eval "$demo_cmd" ) >> $log 2>&1; without=$?
git apply $out/patch.diff || { echo "cannot re-apply"; exit 2; }
echo "## existing suite WITH the change" >> $log
cargo nextest run --workspace --no-fail-fast --test-threads 12 --offline 2>&1 | grep -E "^\s+(FAIL|SIGABRT|TIMEOUT)|Summary|error:" | sort -u >> $log
suite_fail=$(grep -E "^\s+(FAIL|SIGABRT|TIMEOUT)" $log | grep -v -i "seeded" | wc -l)
echo "RESULT id=$id demo_with_exit=$with demo_without_exit=$without suite_failures_outside_demo=$suite_fail" | tee -a $log
grep -E "Summary" $log | tail -1
