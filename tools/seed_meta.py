#!/usr/bin/env python3
"""seed_meta.py <seed-id> <property> <needs-text> <change-summary>: write /verif/seeded/<id>/meta.json from confirm.log and detect.log"""
import json,sys,os,re
sid,prop,needs,summary=sys.argv[1:5]
d=f'/verif/seeded/{sid}'
conf=open(f'{d}/confirm.log').read() if os.path.exists(f'{d}/confirm.log') else ''
det=open(f'{d}/detect.log').read() if os.path.exists(f'{d}/detect.log') else ''
res=re.findall(r'RESULT id=\S+ demo_with_exit=(\d+) demo_without_exit=(\d+) suite_failures_outside_demo=(\d+)',conf)
summ=re.findall(r'Summary \[.*?\] (.*)',conf)
other=[l.strip() for l in conf.splitlines() if re.match(r'\s+(FAIL|TIMEOUT|SIGABRT)',l) and 'seeded' not in l.lower()]
runs=[]
for m in re.finditer(r'== seed=\S+ check=(\S+) tier=(\S+) exit=(\d+) (\d+)s',det):
    runs.append({"check":m.group(1),"tier":m.group(2),"exit":int(m.group(3)),"seconds":int(m.group(4))})
sigs=sorted(set(re.findall(r'signature=(\S+)',det)))
meta={"seed":sid,"breaks_property":prop,"change":summary,"needs_to_manifest":needs,
 "files":{"patch":"patch.diff","demonstration":sorted(open(f'{d}/untracked.txt').read().split()) if os.path.exists(f'{d}/untracked.txt') else []},
 "confirmed_in_scratch_worktree":{"demo_exit_with_change":int(res[-1][0]) if res else None,"demo_exit_without_change":int(res[-1][1]) if res else None,
   "existing_suite_with_change":summ[-1] if summ else None,"suite_failures_outside_demo":other,
   "note":"failures outside the demo, if any, are load-dependent timing tests in crates the patch does not touch (see confirm.log)" if other else ""},
 "checks_run_against_it":runs,"caught":any(r['exit']==1 for r in runs),"signatures_reported":sigs[:12],
 "how":"git -C /repo apply seeded/%s/patch.diff; ./check <id> --tier <tier>; git -C /repo checkout -- .  (tools/try_seed.sh)"%sid}
json.dump(meta,open(f'{d}/meta.json','w'),indent=1)
print(json.dumps({k:meta[k] for k in ['seed','caught','checks_run_against_it']}))
