#!/usr/bin/env python3
"""Regenerate /verif/MANIFEST.json from /verif/checks.json (single source of truth) and validate it."""
import json, os, subprocess, sys
ROOT = os.path.dirname(os.path.dirname(os.path.abspath(__file__)))
cfg = json.load(open(os.path.join(ROOT, "checks.json")))
props = [json.loads(l) for l in open(os.path.join(ROOT, "properties.jsonl"))]
ids = [p["id"] for p in props]
claimed = cfg["checks"]
hooks = subprocess.run(["git", "-C", "/repo", "log", "--format=%h %s", "--grep=^verif hook"], capture_output=True, text=True).stdout.strip().splitlines()
man = {
    "version": 1,
    "setup_cmd": "./check --setup",
    "hooks": {
        "guard": "varpulis_verif",
        "enable": "RUSTFLAGS='--cfg varpulis_verif' (set in /verif/harness/.cargo/config.toml; every harness crate path-depends on /repo/crates/* and is rebuilt from /repo's working tree by ./check)",
        "baseline_off_cmd": "cd /repo && cargo nextest run --workspace --no-fail-fast --test-threads 8 --offline || cargo test --workspace --no-fail-fast --offline",
        "source_commits": [h.split()[0] for h in hooks],
        "add_only": True,
    },
    "engines": cfg["engines"],
    "checks": [],
    "notes": cfg.get("notes", ""),
    "not_applicable": [],
}
for pid in ids:
    if pid in claimed:
        c = claimed[pid]
        assert pid in cfg["harness_of"], pid
        man["checks"].append({
            "property_id": pid,
            "quick_cmd": f"./check {pid} --tier quick",
            "thorough_cmd": f"./check {pid} --tier thorough",
            "evidence_file": f"/verif/evidence/{pid}.json",
            "replay_cmd_template": f"./check {pid} --replay {{path}}",
            "engine": cfg["harness_of"][pid],
            "level_claimed": {"category": c["level"], "text": c["text"], "design_ref": c.get("design_ref", f"DESIGN.md §3 {pid}")},
            "level_note": c["note"],
            "technique": c["technique"],
        })
    else:
        reason = cfg.get("not_applicable", {}).get(pid, "check not built yet in this round (no claim is made); design in DESIGN.md §3")
        man["not_applicable"].append({"property_id": pid, "reason": reason})
out = os.path.join(ROOT, "MANIFEST.json")
json.dump(man, open(out, "w"), indent=1)
open(out, "a").write("\n")
try:
    import jsonschema
    jsonschema.validate(man, json.load(open("/root/.vp/MANIFEST.schema.json")))
    print("MANIFEST.json valid;", len(man["checks"]), "checks,", len(man["not_applicable"]), "not claimed")
except ImportError:
    print("jsonschema not importable here; run with python3-vt")
