#!/bin/bash
# mk_worktree.sh <name>: scratch worktree of /repo HEAD under /tmp/wt-<name> with a hard-linked copy of /repo/target
set -e
n=$1
d=/tmp/wt-$n
git -C /repo worktree add -q --detach $d HEAD
# debug-free prebuilt dependencies (built once in /tmp/wt-base with CARGO_PROFILE_DEV_DEBUG=0)
if [ -d /tmp/wt-base/target ]; then cp -al /tmp/wt-base/target $d/target 2>/dev/null || true; find $d/target -name .cargo-lock -delete; fi
echo $d
