#!/bin/bash
# mk_worktree.sh <name>: scratch worktree of /repo HEAD under /tmp/wt-<name> with a hard-linked copy of /repo/target
set -e
n=$1
d=/tmp/wt-$n
git -C /repo worktree add -q --detach $d HEAD
if [ -d /repo/target ]; then cp -al /repo/target $d/target 2>/dev/null || true; fi
echo $d
