#!/bin/bash
# run the quick tier of every registered check (or the ids given), summary to stdout
cd /verif
ids="$@"
if [ -z "$ids" ]; then ids=$(jq -r '.checks[].property_id' MANIFEST.json); fi
for id in $ids; do
  s=$(date +%s)
  out=$(./check $id --tier quick 2>&1); code=$?
  e=$(date +%s)
  echo "== $id exit=$code $((e-s))s"
  echo "$out" | grep -E "VIOLATION|MACHINERY|SUMMARY|KNOWN-FINDING" | cut -c1-220
done
