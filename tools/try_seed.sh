#!/bin/bash
# try_seed.sh <seed-id> <tier> <check ids...>: apply the seeded patch to /repo, run the checks, revert.
sid=$1; tier=$2; shift 2
p=/verif/seeded/$sid/patch.diff
cd /repo && git diff --quiet || { echo "/repo has uncommitted changes"; exit 2; }
git -C /repo apply $p || { echo "patch does not apply"; exit 2; }
trap 'git -C /repo checkout -- . ' EXIT
cd /verif
for id in "$@"; do
  s=$(date +%s); out=$(./check $id --tier $tier 2>&1); code=$?; e=$(date +%s)
  echo "== seed=$sid check=$id tier=$tier exit=$code $((e-s))s" | tee -a /verif/seeded/$sid/detect.log
  echo "$out" | grep -E "VIOLATION|MACHINERY|SUMMARY" | cut -c1-330 >> /verif/seeded/$sid/detect.log
  echo "   violations=$(echo "$out" | grep -c VIOLATION)"; echo "$out" | grep -E "VIOLATION" | head -2 | cut -c1-300; echo "$out" | grep -E "MACHINERY|SUMMARY" | cut -c1-300
done
